#!/bin/bash
# usage: tools_mutant.sh <file-relative-to-/repo> <sed-expression> <check ids...>
# applies a one-line mutant to /repo's working tree, runs the quick checks, reverts.
f=$1; expr=$2; shift 2
cd /repo || exit 2
if ! git diff --quiet; then echo "/repo has uncommitted changes"; exit 2; fi
sed -i "$expr" "$f"
if git diff --quiet; then echo "MUTANT DID NOT APPLY: $f $expr"; exit 2; fi
git diff | grep '^[+-]' | grep -v '^+++\|^---'
for c in "$@"; do
  out=$(cd /verif && ./check $c quick 2>&1)
  if echo "$out" | grep -q "^VIOLATION"; then echo "  $c: DETECTED  ($(echo "$out" | grep 'violation in phase' | head -2 | cut -c1-160 | tr '\n' ' '))"; else echo "  $c: missed ($(echo "$out" | tail -1 | cut -c1-120))"; fi
  rm -rf /verif/replays/$c/*_[0-9a-f][0-9a-f][0-9a-f][0-9a-f][0-9a-f][0-9a-f][0-9a-f][0-9a-f][0-9a-f][0-9a-f][0-9a-f][0-9a-f][0-9a-f][0-9a-f][0-9a-f][0-9a-f].json 2>/dev/null
done
git checkout -- .
