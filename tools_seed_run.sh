#!/bin/bash
# usage: tools_seed_run.sh <patch.diff> <check ids...> : applies the patch to /repo, runs the quick checks, undoes it
patch=$1; shift
cd /repo || exit 2
git diff --quiet || { echo "/repo dirty"; exit 2; }
git apply "$patch" || { echo "patch does not apply"; exit 2; }
for c in "$@"; do
  out=$(cd /verif && ./check $c quick 2>&1)
  if echo "$out" | grep -q "^VIOLATION"; then echo "  $c: DETECTED  $(echo "$out" | grep 'violation in phase' | head -3 | cut -c1-220 | tr '\n' '|')"; else echo "  $c: missed  ($(echo "$out" | tail -1 | cut -c1-100))"; fi
  # drop the replay files this run created (they belong to the seeded change, not to the tree)
  cd /verif && git status --porcelain replays | awk '{print $2}' | xargs -r rm -rf; cd /repo
done
git checkout -- .
git status --short | head -3
