#!/usr/bin/env python3
"""Writes MANIFEST.json from the table below (one entry per claimed property)."""
import json, subprocess

CHECKS = {
 "C01": dict(
  text="Generated-input search: grammar-derived conforming streams (G_conf) through all five check modes, in-process (one validator per link) and through the real CLI with mute / -E variants, file and stdin; any error message, non-zero error total or non-zero exit is a violation. Exploration is the right level: the space of conforming streams is infinite and the oracle is a validity predicate.",
  note="Trusted base: the independent G_conf grammar (harness/src/gen.rs, model.rs, alpide.rs) encodes the documented protocol; CLI = repository release profile without LTO.",
  technique="property-based testing: grammar-based generation (proptest-driven choice tape) + validity oracle (zero errors), delta-debugging shrinker"),
 "C02": dict(
  text="Fault-catalogue testing on the real CLI: a conforming generated stream is altered so that exactly one documented rule is broken (49 catalogue entries with boundary values, applied at generated positions on the spec so that sizes and neighbouring words stay consistent; for sanity and reserved-bit rules also twice in one stream; a share of the runs with options that must not matter: verbosity, -d, -e 0, a custom-checks file that agrees with the data); in every mode where the rule is documented as active an error of the rule's code family must be located at the layout-map offset of the offending RDH / word and the exit status must be the configured -E value; purely stateful entries must leave `check sanity*` completely silent.",
  note="Trusted base: the catalogue in harness/src/props/c02.rs (rule -> code family -> active modes, from doc/checks_list.md and README); follow-on errors elsewhere are allowed; domain exclusions listed in the evidence assumptions.",
  technique="property-based testing with a fault catalogue (mutation of generated conforming specs) and a located-error oracle"),
 "C03": dict(
  text="Generated-input search over well-framed streams with arbitrary header values: the scanner (in-process, seek and read-discard readers, payload loaded/skipped) and the real CLI (`view rdh`, data view; file and stdin) must visit exactly the chained RDHs, once, in order, with true offsets, independently decoded field values and exact payload bytes, under every filter kind. Differential against an independent chain walker.",
  note="Trusted base: independent RDH decoder / chain walker / filter predicate in harness/src/model.rs; domain = well-framed inputs whose first RDH0 passes the documented pre-check.",
  technique="property-based testing: differential oracle (independent reference walker) over generated well-framed streams"),
 "C05": dict(
  text="Differential over schedules: each generated multi-link erroneous input is executed K times on the hook-enabled CLI under seeded schedule perturbation at every channel hand-off (slow validators / collector / dispatcher, random yields and sleeps); error messages and their order, report, statistics file bytes and exit status must be identical across runs (inputs include exact multiples of the 100-packet batch, inputs ending inside the last payload, a check combined with filter and -o, and more than 65535 messages from several links). The number of distinct pre-sort arrival orders actually reached is measured with the trace hook and only cases with >= 2 count as non-trivial.",
  note="Trusted base: the perturbation hook (feature `verif`) only adds sleeps/yields; schedules are sampled, not enumerated, so a race outside the perturbed hand-offs can be missed (DESIGN.md section 7).",
  technique="property-based testing with fault/schedule injection: metamorphic relation (same input, different schedules => identical observables), schedule diversity measured by trace hook"),
 "C06": dict(
  text="Metamorphic / differential testing of per-link isolation: for generated multi-link streams (conforming and corrupted) in four interleavings, the error list of the full multi-threaded CLI run must equal the offset-merge of one in-process sequential pass per link (per FEE ID in stave mode) over that link's packets alone with their true offsets; the same holds for --filter-link / --filter-fee / --filter-its-stave runs and for the physically extracted single-link file, and the findings normalised to (packet index, inner offset) are identical across interleavings and between a link stored alone and interleaved.",
  note="Trusted base: the in-process sequential pass uses the library's own validator (the property's last clause defines exactly this comparison); independent walker for grouping and offset normalisation; exclusions: a link's first RDH0 / framing uncorrupted, layout agrees with format, interleavings whose first packet fails the documented pre-check are skipped (counted).",
  technique="property-based testing: metamorphic relations over interleavings + differential CLI (multi-threaded dispatch) vs single sequential pass"),
 "C07": dict(
  text="Round-trip oracle against the input: for generated well-framed streams with arbitrary/corrupted word-structured payloads, every error message's leading offset must be an RDH start or word start of the independently walked chain, quoted 10-byte dumps must equal the input bytes at that offset (also the closing TDT quoted by an empty-frame message, at its `ending at` offset), `current :` and `previous:` RDH rows and header fields quoted in the message text must equal an independent decode, frame messages must end on a TDT; all five check modes, all filter kinds, muted and unmuted, stderr and statistics file.",
  note="Trusted base: independent chain walker and word-offset arithmetic; domain restricted (by the statement) to payload layouts that agree with the header's data format.",
  technique="property-based testing: round-trip oracle (re-read the input at the reported offset) over generated and mutated streams"),
 "C08": dict(
  text="Reference-filter testing on the real CLI: for generated well-framed streams the tool is run once per distinct link / FEE / layer-stave value (plus absent values) to a file, to explicit and to default stdout, from file and pipe; each output must equal the concatenation of exactly the matching packets (independent walker and predicate), the outputs must cover every packet exactly once, each output must walk as a chain, re-filtering must be idempotent and rdhs_filtered must equal the match count; destination files that exist beforehand, one odd header-size byte, and one stream of more than 2^20 matching packets (the writer's buffer) are included.",
  note="Trusted base: independent walker and filter predicates (mask 0x703F for layer/stave); every packet's RDH0 passes the pre-check so that any packet may start a derived file.",
  technique="property-based testing: differential against a reference filter + algebraic laws (partition, idempotence) over generated streams"),
 "C09": dict(
  text="Model-based testing against the hand-transcribed state diagram: the complete reachable product of (implementation state id via hook, diagram state) under all 12 word classes is enumerated (every edge and every (state, illegal word) pair), then hundreds of thousands of generated word sequences with random field bits are pushed through the FSM and through the payload validator (split over packets), and through the real CLI embedded in packets. Legal word => classification and successor equal the diagram's; illegal word => reported at that word with E30/E40 `ID is not` or E990/E991/E992.",
  note="Trusted base: the transcription of doc/ITS_payload_fsm_continuous_mode.puml in harness/src/props/c09.rs (DESIGN.md A.1); the abstraction from 11 implementation variants to 8 diagram states; recovery after an illegal word is unspecified and not judged.",
  technique="model-based property testing: reference state machine, exhaustive product exploration of the finite transition table + random sequences"),
 "C10": dict(
  text="Reference-predicate testing of the RDH checks: the documented sanity list applied to raw bytes and the documented running automaton are compared with the implementation for every single-bit flip of the 512 header bits at three positions (exhaustive) and every field at its boundary set, each for streams whose first header version is 7, 6, 3 or 100, random walks of up to 5000 RDHs with mutation rates 0..50 %, and walks through the real CLI (offsets of E10/E11 checked).",
  note="Trusted base: ref_rdh_sanity_fails / RefRunning in harness/src/model.rs written from doc/checks_list.md; BC bound read as <= 0xDEB; after a stop bit > 1 the expectation is set-valued (no verdict demanded).",
  technique="property-based testing: differential against reference predicates, exhaustive bit-flip table + boundary enumeration + random walks"),
 "C11": dict(
  text="Reference-predicate testing of word sanity: per status-word type all 256 ids, all 72 one-bit and 2556 two-bit patterns, all-ones and byte-saturated values (enumerated completely), random 80-bit values, and for data words all 256 ids x single-lane / empty masks and complements, plus the metamorphic relation that reserved bits of the governing IHW change nothing at the data words (256 ids x 7 patterns x 3 masks); both the predicates and the end-to-end reporting through the payload validator in the state that expects the word.",
  note="Trusted base: reference predicates in harness/src/model.rs written from the documented bit layout; exhaustive only over the named sub-spaces of 2^80.",
  technique="property-based testing: differential against reference predicates, exhaustive enumeration of id / 1-bit / 2-bit sub-spaces + random values"),
 "C12": dict(
  text="Reference-chunker testing: both data formats x 0..700 words x 0..40 trailing 0xFF through `preprocess_payload` (differential against an independent chunker), `do_payload_checks` with one faulty word at a generated index (examined exactly once, at its offset, with its bytes), the over-padding triple (reported once at the RDH, payload skipped, state reset; the over-padded packet in four shapes incl. a single line of 0xFF on a stop-bit page) in-process and through the CLI, and the CLI data view (one row per word, no padding row).",
  note="Trusted base: ref_chunk in harness/src/model.rs; words carry their index so order and multiplicity are observable.",
  technique="property-based testing: differential against a reference chunker + metamorphic state-reset triple"),
 "C13": dict(
  text="Reference-verdict and metamorphic testing of the stave-level frame checks: frames produced by an independent ALPIDE encoder (all barrels, legal and illegal lane sets, chip ids / bunch counters / readout flags, empty-frame and header/trailer forms, arbitrary hit content, busy words, padding, lanes cut and interleaved over data words and pages, fatal APEs, custom chip count / orders) are judged against a reference verdict per frame (codes and frame start offset, nothing else reported, chip trailer count), in-process and through the CLI; regenerating only the hit content / padding / cutting must leave verdicts and readout-flag counters unchanged.",
  note="Trusted base: the ALPIDE encoder (harness/src/alpide.rs) and ref_verdict (harness/src/props/c13.rs, DESIGN.md A.4). Frame start = any non-continuation TDH since the previous frame close.",
  technique="property-based testing: reference verdict (independent encoder + decoder-free oracle from the generated spec) + metamorphic relation (hit content independence)"),
 "C14": dict(
  text="Ground-truth recomputation: every statistic of the statistics file (JSON and TOML) and the cross-checked report rows are compared with values recomputed from the input by the independent walker, for generated well-framed streams with arbitrary header values and for (mutated) conforming streams, in all check modes, the three views and filtered writing, with every filter kind, from file and pipe.",
  note="Trusted base: independent walker; which packets count for which statistic is fixed in DESIGN.md A.5; sets compared as sets, links required sorted; runs with FATAL early stop excluded (counted).",
  technique="property-based testing: differential against independently recomputed ground truth"),
 "C15": dict(
  text="Round-trip and drift testing of statistics files on the real CLI: a file written by a run (JSON / TOML, muted or not, five check modes, conforming and erroneous multi-link inputs) must be accepted by the same run again without any mismatch; then every leaf of the independently parsed file that the run collects is perturbed one at a time, type-correctly, re-serialised with an independent library and must be rejected with a message naming the statistic and the any-errors exit status; single-field changes of the input must be rejected as well.",
  note="Trusted base: serde_json / toml crates for parsing and re-serialising; tuples keep their arity (a malformed file is not a drifted file); is_finalized and (outside stave mode) alpide_stats are not collected statistics.",
  technique="property-based testing: round-trip + one-at-a-time leaf perturbation (metamorphic: known input change => known output change)"),
 "C16": dict(
  text="Contract oracle over generated command lines and inputs: all invalid option combinations (enumerated) must be rejected with non-zero exit, empty stdout and no file created; unreadable/unrecognisable inputs exit non-zero without crashing; for processed inputs (clean / erroneous / mid-stream fatal, five modes, -E n, custom checks) exit = n iff anything was reported, total_errors = listed + custom = messages shown, and -m / -w / -e change only what is displayed (-w exactness checked with codes that are prefixes and extensions of present codes).",
  note="Trusted base: stderr/stats/report parsers of the harness; the exit-status oracle relates observables of the same run, with the classes clean / wrong custom check known by construction.",
  technique="property-based testing: reference contract + metamorphic relations between runs with and without display options"),
 "C17": dict(
  text="Fault-schedule injection on the real CLI: SIGINT/SIGTERM at delays drawn over the measured run time, stdout closed after N bytes, error cap, mid-stream fatal error; crossed with modes, file/pipe input, schedule perturbation (slow validator / collector / writer so that the bounded queues fill) and input sizes up to 8 MB. Oracle: the process exits by itself within the watchdog with all threads joined, no panic, no terminating signal, exit in {0,1,n}; a partial output file is a whole-packet prefix of the expected filtered output. The fraction of stops that provably landed mid-run is measured. Two further phases: one signal after the error cap while stdin is held open (orderly exit status), and a model of the shared stop flag over generated message histories of the statistics controller (in-process).",
  note="Trusted base: watchdog rule (3 reproductions), perturbation hook; timing is sampled not enumerated. A signal delivered before the tool installed its handler terminates the process by default disposition and is excluded (counted).",
  technique="property-based testing with fault injection (signals, closed pipes, error cap, fatal input) and schedule perturbation; validity oracle on the process outcome and on partial output"),
 "C19": dict(
  text="Parse-back testing of the three views on the real CLI: every printed row is compared (whitespace-insensitively) with an independent decode of the bytes at the row's offset (14 RDH fields; RDH summary row; IHW/TDH/TDT/DDW/CDW/DATA rows with raw bytes and decoded attributes with their documented priorities; unknown ids on stderr), for well-framed streams with arbitrary header values and word payloads in both formats and for conforming streams, under every filter; styled output with ANSI removed must equal the unstyled output line by line.",
  note="Trusted base: independent decoders in harness/src/props/c19.rs and model.rs; whitespace-insensitive comparison because columns may overflow.",
  technique="property-based testing: round-trip oracle (print -> parse back -> compare with independent decode) + styled/unstyled equivalence"),
 "C20": dict(
  text="Exactness testing of user-configured checks on the real CLI: conforming streams with known truth (packet count, PhT count, RDH version, OB chip lists, internal-trigger BC sequences with a chosen period incl. wrap-around) against configurations with each key absent / equal / one below / one above (orders exact, superset, permuted, partial), keys in any order or commented; the set of reported messages (codes, offsets, sub-codes) must equal the expected set and the exit status must follow; an all-absent file must be indistinguishable from no file.",
  note="Trusted base: truths computed from the generated spec; ref_verdict of C13 for chip count / order; the trigger-period rule `(BC - previous internal BC) mod 3564 != P` implemented independently.",
  technique="property-based testing: exact expected-message-set oracle over generated configurations around the truth (boundary +-1)"),
 "C18": dict(
  text="Differential truncation testing: generated (conforming and corrupted) multi-link streams are cut at structure-derived and random positions (thorough: every byte position of small streams); the truncated run must terminate normally and its findings (error messages / view rows) for all complete packets before the cut must equal those of the untruncated run; check and view modes, file and pipe, with and without filter.",
  note="Trusted base: the untruncated run is the reference; runs whose full input triggers a FATAL stop are excluded (stop point is schedule dependent by design) and counted.",
  technique="property-based testing: metamorphic relation truncated-vs-full over generated cut positions (exhaustive over small inputs in the thorough tier)"),
 "C04": dict(
  text="Generated-input search for crashes and hangs: structure-aware mutations of conforming streams, random bytes, well-framed arbitrary streams and edited repository files, each under a random valid command line, on the real release CLI; oracle = terminates by itself, no panic/abort/signal, exit in {0,1,n}. Confirmed findings are keyed by panic site and recorded, so the search continues behind them.",
  note="Trusted base: watchdog rule (a hang needs 3 x 60 s confirmation); only option combinations accepted by clap/validate_args; debug assertions are off as in the shipped binary.",
  technique="fuzzing-style property-based testing: structure-aware mutation (G_mut) + crash/hang/exit-status oracle on the real CLI"),
}

def main():
    src = subprocess.run(["git","-C","/repo","log","--format=%h %s"],capture_output=True,text=True).stdout.splitlines()
    hooks=[l.split()[0] for l in src if l.split(' ',1)[1].startswith("verif hook")]
    m = {
      "version": 1,
      "setup_cmd": "./check --setup",
      "hooks": {
        "guard": "cargo feature `verif` (fastpasta/verif enables alice_protocol_reader/verif)",
        "enable": "CLI under test: cargo build --release -p fastpasta --bin fastpasta --features verif ; harness: path dependency with features=[\"verif\"]",
        "baseline_off_cmd": "cd /repo && cargo nextest run --workspace --no-fail-fast --tool-config-file pb:/w/lib/nextest.toml --profile pb --test-threads 8 --offline",
        "source_commits": hooks[::-1],
        "add_only": True
      },
      "engines": [
        {"name": "fpv", "path": "harness", "serves_properties": sorted(CHECKS), "kind_free_text": "Rust binary: tape-driven proptest generators (G_conf/G_frame/G_mut), independent protocol model, real-CLI and in-process drivers, delta-debugging shrinker, replay files, evidence writer"}
      ],
      "checks": [],
      "not_applicable": [],
      "notes": "All checks: ./check <id> quick|thorough ; replay: ./check <id> --replay <file>. known findings / fixed defects: known_findings.json. Design: DESIGN.md."
    }
    for pid in sorted(CHECKS):
        c=CHECKS[pid]
        m["checks"].append({
          "property_id": pid,
          "quick_cmd": f"./check {pid} quick",
          "thorough_cmd": f"./check {pid} thorough",
          "evidence_file": f"evidence/{pid}.json",
          "replay_cmd_template": f"./check {pid} --replay {{path}}",
          "engine": "fpv",
          "level_claimed": {"category": "exploration", "text": c["text"], "design_ref": f"DESIGN.md section 3, {pid}"},
          "level_note": c["note"],
          "technique": c["technique"],
        })
    allp=[json.loads(l)["id"] for l in open("/verif/properties.jsonl")]
    for pid in allp:
        if pid not in CHECKS:
            m["not_applicable"].append({"property_id": pid, "reason": "check not built yet (work in progress; the design in DESIGN.md claims it, it will be moved to `checks` when its machinery is committed)"})
    json.dump(m, open("/verif/MANIFEST.json","w"), indent=1)
main()
