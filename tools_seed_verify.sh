#!/bin/bash
# usage: tools_seed_verify.sh <Cxx> [worktree]   -- confirms a seeded change in its scratch worktree:
#  (1) existing suite passes with the change, (2) demo fails with the change, (3) demo passes without it.
id=$1; wt=${2:-/tmp/wt_$id}
cd $wt || exit 2
export CARGO_NET_OFFLINE=true
echo "== patch:"; cat _seed/patch.diff | grep '^[+-]' | grep -v '^+++\|^---' | head -40
demo=$(ls fastpasta/tests/seed_demo*.rs 2>/dev/null | head -1)
echo "== demo: $demo"
echo "== (1) existing suite with the change (demo excluded)"
cargo nextest run --workspace --no-fail-fast --offline --test-threads 8 -E 'not binary(/seed_demo/)' 2>&1 | grep -E "Summary|FAIL " | head -5
echo "== (2) demo with the change"
cargo nextest run --offline -p fastpasta --test "$(basename ${demo%.rs})" --no-fail-fast 2>&1 | grep -E "Summary|FAIL " | head -8
echo "== (3) demo without the change"
git apply -R _seed/patch.diff && cargo nextest run --offline -p fastpasta --test "$(basename ${demo%.rs})" --no-fail-fast 2>&1 | grep -E "Summary|FAIL " | head -5
git apply _seed/patch.diff
