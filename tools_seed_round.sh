#!/bin/bash
# usage: tools_seed_round.sh <round> <Cxx> <checks...> : verify the seed in /tmp/wt<round>_<Cxx>, save it to seeded/<Cxx>_<round>, run the checks against it
rnd=$1; id=$2; shift 2
wt=/tmp/wt${rnd}_$id
echo "######## $id (round $rnd)"
(cd $wt && git diff HEAD | diff -q - _seed/patch.diff >/dev/null && echo "diff == patch" || echo "DIFF != PATCH")
/verif/tools_seed_verify.sh $id $wt 2>&1 | grep -E "Summary" | tr '\n' ' '; echo
d=/verif/seeded/${id}_$rnd; mkdir -p $d
cp $wt/_seed/patch.diff $d/; cp $wt/_seed/seed_demo.rs $d/ 2>/dev/null || cp $wt/fastpasta/tests/seed_demo.rs $d/; cp $wt/_seed/README.md $d/AGENT_README.md
/verif/tools_seed_run.sh $d/patch.diff "$@" 2>&1 | tail -n $#
