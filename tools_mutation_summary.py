#!/usr/bin/env python3
"""Summarises mutation/results_lane*.jsonl and the hand triage of the survivors (mutation/TRIAGE.md is written)."""
import json, glob, collections
TRIAGE = {
 # key prefix "file:line" -> (category, reason)
 "alpide_word.rs:132": ("dead", "constant not used"),
 "cdp_vec.rs": ("dead", "CdpVec / spawn_vec_reader are not used by the CLI"),
 "config.rs:214": ("outside", "`-g` template generation: no listed property"),
 "config.rs:256": ("equivalent", "payload is loaded although it is not analysed: performance only"),
 "controller.rs:303": ("cosmetic", "log text when stdout is closed"),
 "controller.rs": ("cosmetic", "progress spinner"),
 "data_words.rs": ("equivalent", "middle-layer id ranges are subsets of the outer-layer ranges they are or-ed with"),
 "ddw.rs:24": ("equivalent", "the extra mask bit is removed by the following shift"),
 "ddw.rs:44": ("cosmetic", "value only printed in the text of E60"),
 "error_stats.rs:52": ("equivalent", "radix 17 keeps the order of hexadecimal strings (sort key only)"),
 "error_stats.rs:96": ("outside", "`staves_with_errors` is not among the statistics the properties list"),
 "ihw.rs:50": ("equivalent", "reads the same bytes from a longer slice"),
 "tdt.rs:95": ("equivalent", "reads the same bytes from a longer slice"),
 "tdh.rs:99": ("equivalent", "reads the same bytes from a longer slice"),
 "rdh.rs:209": ("equivalent", "reads the same bytes from a longer slice"),
 "rdh_cru.rs:332": ("equivalent", "reads the same bytes from a longer slice"),
 "input_scanner.rs:331": ("outside", "upper acceptance bound of the framing check (10 000 vs 10 001 bytes): no listed property fixes it"),
 "its.rs:180": ("dead", "helper only used in doc tests"),
 "its_payload_fsm_cont.rs": ("hook", "state ids of the verification hook (feature `verif`)"),
 "lane_alpide_frame_analyzer.rs:136": ("equivalent", "the flag is already clear on lanes that follow the ALPIDE grammar"),
 "lane_alpide_frame_analyzer.rs:235": ("cosmetic", "detail text of E9003"),
 "lane_alpide_frame_analyzer.rs:40": ("dead", "constant not used"),
 "lib.rs:137": ("equivalent", "reader buffer size"),
 "lib.rs:221": ("equivalent", "both arms end the batch the same way"),
 "lib.rs:224": ("equivalent", "both arms end the batch the same way"),
 "rdh_cru.rs:331": ("equivalent", "reads the same bytes from a longer slice"),
 "lane_alpide_frame_analyzer.rs:126": ("equivalent", "the flag is already set inside a chip (a region header follows a chip header)"),
 "test_util.rs": ("dead", "test utility (MockConfig), not part of the CLI"),
 "rdh_stats.rs:181": ("dead", "`allow(dead_code)`"),
 "alpide_word.rs:134": ("dead", "constant not used"),
 "cdw.rs:27": ("GAP", "lowest bit of the CDW user field ignored -> the C02 entry for E81 now flips one bit (lowest / highest / any) of the user field"),
 "lib.rs:255": ("dead", "spawn_vec_reader is not used by the CLI"),
 "lib.rs:263": ("dead", "spawn_vec_reader is not used by the CLI"),
 "lib.rs:267": ("dead", "spawn_vec_reader is not used by the CLI"),
 "lib.rs:36": ("GAP", "one signal takes the forced-exit path -> C17 phase cap_then_signal added (now detected)"),
 "link_validator.rs:150": ("GAP", "`previous:` context rows vanish -> C07 oracle for previous rows added (now detected)"),
 "ob.rs:30": ("equivalent", "ids with connector input 7 are outside the valid id ranges anyway"),
 "rdh.rs:169": ("equivalent", "compile-time validation of constants"),
 "rdh.rs:21": ("cosmetic", "RDH size only used for the `Data size` line of the report"),
 "rdh3.rs": ("dead", "det_field_util is `allow(dead_code)`"),
 "rdh_cru.rs:193": ("dead", "accessor not used by any check"),
 "rdh_stats.rs:194": ("dead", "`allow(dead_code)`"),
 "stat_format_utils.rs": ("cosmetic", "report layout"),
 "stats.rs:68": ("equivalent", "the collector de-duplicates FEE ids"),
 "stats.rs:91": ("equivalent", "the counter is flushed once"),
 "stats_collector.rs:108": ("GAP", "no report for a single-RDH input -> C14 now requires the report in check mode (now detected)"),
 "status_words.rs:46": ("cosmetic", "Display of words"),
 "tdh.rs:49": ("equivalent", "the extra mask bit is removed by the following shift"),
 "tdh.rs:56": ("equivalent", "the extra mask bit is removed by the following shift"),
 "tdh.rs:63": ("equivalent", "the extra mask bit is removed by the following shift"),
 "tdh.rs:7": ("cosmetic", "field width in the text of E44x"),
 "tdt.rs:5": ("dead", "timeout accessors not used"),
 "util.rs:128": ("cosmetic", "stored DDW0 only used for the context text of E701"),
 "util.rs:130": ("dead", "`allow(dead_code)`"),
 "util.rs:173": ("dead", "`allow(dead_code)`"),
 "validator_dispatcher.rs": ("equivalent", "channel capacity / back-off constants"),
 "writer.rs:136": ("GAP", "buffer not cleared after a mid-run flush (only with > 2^20 packets) -> C08 phase huge_output added (now detected)"),
 "writer.rs": ("equivalent", "flush thresholds of a buffer that is flushed at the end anyway"),
}
def triage(d):
    key = d["file"].split("/")[-1] + ":" + str(d["line"])
    best = None
    for k, v in TRIAGE.items():
        if key.startswith(k) and (best is None or len(k) > len(best[0])):
            best = (k, v)
    return best[1] if best else ("UNTRIAGED", "")
res = collections.Counter(); by = collections.Counter(); cats = collections.Counter(); rows = []; seen = set()
for f in sorted(glob.glob("/verif/mutation/results_lane*.jsonl")):
    for l in open(f):
        d = json.loads(l)
        k = (d["file"], d["line"], d["op"])
        if k in seen:
            continue
        seen.add(k)
        res[d["result"]] += 1
        if d["result"] == "detected":
            by[d["by"]] += 1
        if d["result"] == "survived-all":
            c, r = triage(d)
            cats[c] += 1
            rows.append((d["file"], d["line"], d["op"], d["orig"][:80], c, r))
out = ["# Mutation campaign: survivors of the existing test suite AND of all 20 quick checks, with triage", "",
       f"mutants: {sum(res.values())}  " + "  ".join(f"{k}: {v}" for k, v in res.most_common()), "",
       "detected by (first check that reported): " + ", ".join(f"{k} {v}" for k, v in sorted(by.items())), "",
       "survivor categories: " + ", ".join(f"{k} {v}" for k, v in cats.most_common()), "",
       "| file | line | operator | original | category | why |", "|---|---|---|---|---|---|"]
for r in sorted(rows):
    out.append(f"| {r[0]} | {r[1]} | {r[2]} | `{r[3]}` | {r[4]} | {r[5]} |")
open("/verif/mutation/TRIAGE.md", "w").write("\n".join(out) + "\n")
print("\n".join(out[:8]))
