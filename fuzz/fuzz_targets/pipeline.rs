#![no_main]
//! C04 / C07 / C03: an arbitrary byte string is walked like the scanner does; every link's packets go through one
//! LinkValidator in the mode selected by the first byte.  Oracles inside the target: no panic (any panic aborts the
//! fuzzer), every error message is truthful (C07 predicate) while the payload layout agrees with the header's format.
use libfuzzer_sys::fuzz_target;
include!("shared.rs");
use crate::inproc::ALL_MODES;
use crate::model::*;
use crate::truth::{check_message, truth_of};
use std::collections::BTreeMap;

fuzz_target!(|data: &[u8]| {
    if data.len() < 65 {
        return;
    }
    inproc::init_global_config();
    let mode = ALL_MODES[(data[0] % 5) as usize];
    let bytes = &data[1..];
    let (walked, _) = walk(bytes);
    if walked.is_empty() {
        return;
    }
    let mut layout_ok = true;
    let mut groups: BTreeMap<u32, Vec<(Vec<u8>, Vec<u8>, u64)>> = BTreeMap::new();
    for w in &walked {
        if !w.complete {
            break;
        }
        let payload = &bytes[w.payload_start..w.payload_end];
        // C07's proviso: the layout the tool detects must be the one the header announces
        if !payload.is_empty() && detected_fmt0(payload) != (w.rdh.data_format() == 0) {
            layout_ok = false;
        }
        if w.rdh.data_format() == 0 && payload.len() % 16 != 0 {
            layout_ok = false;
        }
        // well-framed: the payload announced by memory_size must end where the next packet starts or before it;
        // a memory_size beyond offset_next makes consecutive packets overlap (word offsets are then not monotone)
        if w.payload_end > w.offset as usize + w.rdh.offset_next as usize {
            layout_ok = false;
        }
        let key = if mode.stave() { w.rdh.fee_id as u32 } else { w.rdh.link_id as u32 };
        groups.entry(key).or_default().push((bytes[w.offset as usize..w.offset as usize + 64].to_vec(), if mode.its() { payload.to_vec() } else { vec![] }, w.offset));
    }
    let tr = truth_of(bytes);
    let cfg = inproc::mock_cfg(mode, false);
    for (_k, pk) in groups {
        let res = inproc::link_pass(cfg, &pk);
        if layout_ok {
            for e in &res.errors {
                if let Some(m) = crate::cli::parse_err_msg(e) {
                    // format-2 payloads with a body that is not a whole number of words put words where no word start is: skip those
                    if let Err((sig, why)) = check_message(&m, bytes, &tr) {
                        if sig.contains("not-at-word") {
                            continue;
                        }
                        panic!("C07 violation {sig}: {why}\n{e}");
                    }
                }
            }
        }
    }
});
