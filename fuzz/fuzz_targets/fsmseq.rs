#![no_main]
//! C09: every word of an arbitrary word sequence is classified as the documented diagram says; illegal words in
//! choice states are never silently accepted.
use libfuzzer_sys::fuzz_target;
include!("shared.rs");
use fastpasta::analyze::validators::its::its_payload_fsm_cont::ItsPayloadFsmContinuous;
use fastpasta::analyze::validators::its::lib::ItsPayloadWord;
use crate::fsm_model::*;
use crate::model::word_hex;

fn impl_class(r: &ItsPayloadWord) -> Class {
    match r {
        ItsPayloadWord::IHW => Class::Ihw,
        ItsPayloadWord::IHW_continuation => Class::IhwContinuation,
        ItsPayloadWord::TDH => Class::Tdh,
        ItsPayloadWord::TDH_continuation => Class::TdhContinuation,
        ItsPayloadWord::TDH_after_packet_done => Class::TdhAfterPacketDone,
        ItsPayloadWord::TDT => Class::Tdt,
        ItsPayloadWord::CDW => Class::Cdw,
        ItsPayloadWord::DataWord => Class::Data,
        ItsPayloadWord::DDW0 => Class::Ddw0,
    }
}

fuzz_target!(|data: &[u8]| {
    let mut fsm = ItsPayloadFsmContinuous::new();
    let mut ms = MS::Ihw;
    for w in data.chunks_exact(10) {
        let a = alpha(fsm.verif_state_id()).expect("C09: implementation state without counterpart in the diagram");
        assert_eq!(a, ms, "C09: state desync before [{}]", word_hex(w));
        let r = fsm.advance(w);
        let after = alpha(fsm.verif_state_id()).expect("C09: implementation state without counterpart in the diagram");
        match model_step(ms, w) {
            Step::Legal(cls, succ) => {
                let got = r.unwrap_or_else(|e| panic!("C09: legal word [{}] rejected in {ms:?}: {e:?}", word_hex(w)));
                assert_eq!(impl_class(&got), cls, "C09: classification in {ms:?} of [{}]", word_hex(w));
                assert_eq!(after, succ, "C09: successor of {ms:?} on [{}]", word_hex(w));
                ms = succ;
            }
            Step::Illegal(code) => {
                if matches!(code, "990" | "991" | "992") {
                    assert!(r.is_err(), "C09: illegal word [{}] silently accepted in {ms:?}", word_hex(w));
                }
                ms = after;
            }
        }
    }
});
