#![no_main]
//! C04: the three views must never panic, whatever the bytes (stdout is redirected to /dev/null once).
//! input: byte 0 selects the view and styling; the rest is walked like the scanner does and handed over in batches.
use libfuzzer_sys::fuzz_target;
include!("shared.rs");
use crate::model::*;
use alice_protocol_reader::cdp_wrapper::cdp_array::CdpArray;
use alice_protocol_reader::prelude::RdhCru;
use fastpasta::config::view::ViewCommands;
use std::sync::Once;

static INIT: Once = Once::new();

fuzz_target!(|data: &[u8]| {
    if data.len() < 65 {
        return;
    }
    INIT.call_once(|| {
        crate::inproc::init_global_config();
        unsafe {
            let fd = libc::open(b"/dev/null\0".as_ptr() as *const libc::c_char, libc::O_WRONLY);
            if fd >= 0 {
                libc::dup2(fd, 1);
            }
        }
    });
    let view = match data[0] % 3 {
        0 => ViewCommands::Rdh,
        1 => ViewCommands::ItsReadoutFrames,
        _ => ViewCommands::ItsReadoutFramesData,
    };
    let bytes = &data[1..];
    let (walked, _) = walk(bytes);
    let mut arr: CdpArray<RdhCru, 100> = CdpArray::new_const();
    for w in walked.iter().take(100) {
        if !w.complete {
            break;
        }
        // by design the views refuse over-padded payloads with an error (no panic expected either way)
        arr.push(crate::inproc::load_rdh(&bytes[w.offset as usize..w.offset as usize + 64]), bytes[w.payload_start..w.payload_end].to_vec(), w.offset);
    }
    if arr.is_empty() {
        return;
    }
    let _ = fastpasta::analyze::view::lib::generate_view(view, &arr);
});
