// modules shared with the harness (single source of truth for the reference model and the oracles)
#[allow(dead_code)]
#[path = "../../harness/src/tape.rs"]
pub mod tape;
#[allow(dead_code)]
#[path = "../../harness/src/model.rs"]
pub mod model;
#[allow(dead_code)]
#[path = "../../harness/src/cli.rs"]
pub mod cli;
#[allow(dead_code)]
#[path = "../../harness/src/truth.rs"]
pub mod truth;
#[allow(dead_code)]
#[path = "../../harness/src/fsm_model.rs"]
pub mod fsm_model;
#[allow(dead_code)]
#[path = "../../harness/src/inproc.rs"]
pub mod inproc;
