#![no_main]
//! C11: status / data word sanity predicates must equal the reference predicates for any 80-bit value.
use libfuzzer_sys::fuzz_target;
include!("shared.rs");
use fastpasta::analyze::validators::its::data_words::{ib::IbDataWordValidator, ob::ObDataWordValidator, DataWordSanityChecker};
use fastpasta::analyze::validators::its::status_word::StatusWordSanityChecker;
use fastpasta::words::its::status_words::{ddw::Ddw0, ihw::Ihw, tdh::Tdh, tdt::Tdt, StatusWord};
use crate::model::*;

fuzz_target!(|data: &[u8]| {
    if data.len() < 15 {
        return;
    }
    let role = data[0] % 5;
    let w = &data[1..11];
    let mask = u32::from_le_bytes([data[11], data[12], data[13], data[14]]) & 0x0FFF_FFFF;
    let mut s: &[u8] = w;
    match role {
        0 => assert_eq!(StatusWordSanityChecker::check_ihw(&Ihw::load(&mut s).unwrap()).is_err(), ref_ihw_fails(w), "C11 IHW {}", word_hex(w)),
        1 => assert_eq!(StatusWordSanityChecker::check_tdh(&Tdh::load(&mut s).unwrap()).is_err(), ref_tdh_fails(w), "C11 TDH {}", word_hex(w)),
        2 => assert_eq!(StatusWordSanityChecker::check_tdt(&Tdt::load(&mut s).unwrap()).is_err(), ref_tdt_fails(w), "C11 TDT {}", word_hex(w)),
        3 => assert_eq!(StatusWordSanityChecker::check_ddw0(&Ddw0::load(&mut s).unwrap()).is_err(), ref_ddw0_fails(w), "C11 DDW0 {}", word_hex(w)),
        _ => {
            let id = w[9];
            assert_eq!(DataWordSanityChecker::check_any(w).is_err(), !is_data_id(id), "C11 data id {id:#04X}");
            if is_data_id(id) {
                let inactive = mask & (1 << lane_of_id(id)) == 0;
                if id >> 5 == 1 {
                    assert_eq!(IbDataWordValidator::check(w, mask).is_err(), inactive, "C11 IB lane");
                } else {
                    assert_eq!(ObDataWordValidator::check(w, mask).is_err(), inactive || (id & 7) > 6, "C11 OB lane");
                }
            }
        }
    }
});
