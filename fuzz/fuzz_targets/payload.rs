#![no_main]
//! C12: `preprocess_payload` must cut a payload exactly as the independent reference chunker does.
//! input: byte 0 = layout selector, rest = payload bytes (for layout 0 the payload is built from 10-byte words + zero fill)
use libfuzzer_sys::fuzz_target;
include!("shared.rs");
use crate::model::*;

fuzz_target!(|data: &[u8]| {
    if data.is_empty() {
        return;
    }
    let fmt0 = data[0] & 1 == 1;
    let body = &data[1..];
    let payload: Vec<u8> = if fmt0 {
        // words of 10 bytes laid out in 16-byte slots
        let mut v = vec![];
        for w in body.chunks_exact(10) {
            v.extend_from_slice(w);
            v.extend_from_slice(&[0u8; 6]);
        }
        v
    } else {
        body.to_vec()
    };
    // the tool recognises the layout from bytes 10..15; the oracle applies to payloads whose layout it recognises as intended
    let detected0 = detected_fmt0(&payload);
    let expect = ref_chunk(&payload, detected0);
    let got = fastpasta::analyze::validators::lib::preprocess_payload(&payload).map(|c| c.map(|x| x[..10].to_vec()).collect::<Vec<_>>());
    match (expect, got) {
        (Chunked::OverPadded(_), Err(_)) => {}
        (Chunked::OverPadded(k), Ok(w)) => panic!("C12 violation: {k} trailing 0xFF accepted ({} words)", w.len()),
        (Chunked::Words(_), Err(e)) => panic!("C12 violation: valid padding rejected: {e}"),
        (Chunked::Words(exp), Ok(w)) => {
            let exp: Vec<Vec<u8>> = exp.into_iter().map(|(_, w)| w.to_vec()).collect();
            // format 2 with a non multiple-of-10 body: the remainder must be padding only, else the layout is not the one the header announces
            if !detected0 {
                let ff = trailing_ff(&payload);
                let rem = if ff > 9 { (payload.len() - ff) % 10 } else { payload.len() % 10 };
                if ff > 9 && rem != 0 {
                    return; // body is not a whole number of words: outside the format's definition
                }
                if ff <= 9 && !payload[payload.len() - rem..].iter().all(|b| *b == 0xFF) {
                    return;
                }
            } else if payload.len() % 16 != 0 {
                return;
            }
            assert_eq!(w, exp, "C12 violation: words differ from the reference chunker");
        }
    }
});
