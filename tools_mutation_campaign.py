#!/usr/bin/env python3
"""Systematic sensitivity measurement: syntactic one-line mutants of CramBL/fastPASTA, each one
   (1) compiled, (2) run against the repository's own test suite, (3) if it survives that, run against the
   quick checks of /verif.  Everything happens in a scratch lane (/tmp/mut/lane<K>): a git worktree of /repo and a
   copy of /verif; neither /repo nor /verif is touched.  Results: one JSON line per mutant.

   usage: tools_mutation_campaign.py --lane K --lanes N --count M [--seed S] [--out FILE] [--list]
"""
import argparse, json, os, random, re, subprocess, sys, time, shutil

SRC_DIRS = ["fastpasta/src", "alice_protocol_reader/src"]
SKIP_FILES = ("test_data", "/tests/", "macros.rs", "/lints", "verif.rs")

OPS = [
    ("eq->ne", re.compile(r" == "), " != "),
    ("ne->eq", re.compile(r" != "), " == "),
    ("lt->le", re.compile(r"(?<![<-]) < (?!<)"), " <= "),
    ("le->lt", re.compile(r" <= "), " < "),
    ("gt->ge", re.compile(r"(?<![=>-]) > (?!>)"), " >= "),
    ("ge->gt", re.compile(r" >= "), " > "),
    ("and->or", re.compile(r" && "), " || "),
    ("or->and", re.compile(r" \|\| "), " && "),
    ("plus1->plus2", re.compile(r"\+ 1\b"), "+ 2"),
    ("minus1->minus2", re.compile(r"- 1\b"), "- 2"),
    ("drop-not", re.compile(r"\bif !(?=[a-zA-Z_(])"), "if "),
    ("true->false", re.compile(r"\btrue\b"), "false"),
    ("false->true", re.compile(r"\bfalse\b"), "true"),
]
LIT = re.compile(r"(?<![\w.])(0x[0-9A-Fa-f_]+|0b[01_]+|\d[\d_]*)(?![\w.])")
STMT = re.compile(r"^\s*self\.[\w.]+(\([^;]*\))?\s*((\+|-|\|)?=\s*[^=].*)?;\s*$")
SHIFT = re.compile(r"(>>|<<) (\d+)\b")


def code_part(line):
    """the part of the line before a // comment, with string literals blanked (same length)"""
    out, i, in_s = [], 0, False
    while i < len(line):
        c = line[i]
        if in_s:
            if c == "\\":
                out.append("  "); i += 2; continue
            if c == '"':
                in_s = False; out.append('"')
            else:
                out.append(" ")
        else:
            if c == '"':
                in_s = True; out.append('"')
            elif line.startswith("//", i):
                break
            else:
                out.append(c)
        i += 1
    return "".join(out)


def sites(repo):
    res = []
    for d in SRC_DIRS:
        for root, _, files in os.walk(os.path.join(repo, d)):
            for f in sorted(files):
                p = os.path.join(root, f)
                rel = os.path.relpath(p, repo)
                if not f.endswith(".rs") or any(s in rel for s in SKIP_FILES):
                    continue
                lines = open(p).read().split("\n")
                for n, line in enumerate(lines):
                    if re.match(r"\s*#\[cfg\(test\)\]", line):
                        break
                    s = line.strip()
                    if not s or s.startswith(("//", "#[", "use ", "pub use ", "debug_assert", "log::", "assert")):
                        continue
                    if "_rgb" in line or re.search(r"const \w+_(R|G|B): u8", line) or re.search(r"const \w*(RED|GREEN|BLUE|YELLOW|PURPLE|ORANGE|GRAY|GREY)\w*: u8", line):
                        continue
                    if "debug_assert" in line or "log::" in line or "cfg(feature = \"verif\")" in line or "verif::" in line:
                        continue
                    cp = code_part(line)
                    for name, rx, rep in OPS:
                        m = rx.search(cp)
                        if m:
                            res.append((rel, n, name, line[: m.start()] + rep + line[m.end():]))
                    m = LIT.search(cp)
                    if m and ("const " in cp or "==" in cp or "!=" in cp or "<" in cp or ">" in cp or "&" in cp or "=>" in cp or "matches!" in cp):
                        t = m.group(1)
                        try:
                            tt = t.replace("_", "")
                            v = int(tt, 0)
                            if t.startswith("0x"):
                                new = hex(v ^ 1) if v else "0x1"
                                new = "0x" + new[2:].upper()
                            elif t.startswith("0b"):
                                new = "0b" + format(v ^ 1, "0%db" % (len(tt) - 2))
                            else:
                                new = str(v + 1)
                            res.append((rel, n, "literal", line[: m.start(1)] + new + line[m.end(1):]))
                        except ValueError:
                            pass
                    m = SHIFT.search(cp)
                    if m:
                        res.append((rel, n, "shift+1", line[: m.start(2)] + str(int(m.group(2)) + 1) + line[m.end(2):]))
                    if STMT.match(cp) and cp.count("(") == cp.count(")"):
                        res.append((rel, n, "drop-stmt", re.match(r"\s*", line).group(0) + "/* mutant: statement dropped */"))
    return res


MAP = [
    ("rdh_running", "C10 C02 C01 C06 C18"),
    ("validators/rdh", "C10 C02 C01 C16"),
    ("its_payload_fsm", "C09 C02 C01 C12"),
    ("alpide", "C13 C01 C20 C04 C15"),
    ("readout_frame", "C13 C01 C07 C20 C04"),
    ("cdp_tracker", "C07 C02 C12"),
    ("cdp_running", "C02 C01 C12 C07 C13 C20 C09"),
    ("status_word", "C11 C02 C01 C20"),
    ("data_words", "C11 C02 C01"),
    ("words/its", "C11 C19 C02 C01 C09"),
    ("validator_dispatcher", "C06 C05 C17 C01"),
    ("link_validator", "C06 C07 C02 C01 C16 C05"),
    ("validators/lib", "C12 C02 C06 C01"),
    ("validators/its", "C02 C01 C12 C13"),
    ("view", "C19 C12 C17 C14"),
    ("error_stats", "C16 C15 C05 C14"),
    ("stats_validation", "C15"),
    ("stats_collector", "C14 C15 C16 C05"),
    ("stats", "C14 C15 C16 C05 C20"),
    ("controller", "C14 C16 C05 C17 C15"),
    ("input_scanner", "C03 C08 C18 C14 C04 C07"),
    ("stdin_reader", "C03 C08 C18"),
    ("bufreader", "C03 C08 C18"),
    ("mem_pos_tracker", "C03 C07 C18"),
    ("alice_protocol_reader/src/lib", "C03 C17 C18 C05"),
    ("rdh", "C03 C10 C19 C14 C08"),
    ("config", "C16 C20 C08"),
    ("custom_checks", "C20 C16"),
    ("writer", "C08 C17"),
    ("write", "C08 C17"),
    ("analyze", "C01 C02 C17 C16"),
    ("fastpasta/src/lib", "C16 C17 C04 C08"),
    ("main", "C16 C17"),
    ("util", "C16 C04"),
]
ALL = ["C%02d" % i for i in range(1, 21)]


def checks_for(rel):
    first = []
    for k, v in MAP:
        if k in rel:
            for c in v.split():
                if c not in first:
                    first.append(c)
            if len(first) >= 6:
                break
    for c in ["C01", "C02", "C04"]:
        if c not in first:
            first.append(c)
    return first, [c for c in ALL if c not in first]


def sh(cmd, cwd, env=None, timeout=3600):
    e = dict(os.environ)
    e.update({"CARGO_NET_OFFLINE": "true"})
    if env:
        e.update(env)
    # own session: on a timeout the whole process group goes (a mutant can make a test spin or allocate without bound)
    import signal
    p = subprocess.Popen(cmd, cwd=cwd, env=e, shell=True, stdout=subprocess.PIPE, stderr=subprocess.STDOUT, start_new_session=True)
    try:
        out, _ = p.communicate(timeout=timeout)
        rc = p.returncode
    except subprocess.TimeoutExpired:
        os.killpg(p.pid, signal.SIGKILL)
        out, _ = p.communicate()
        rc = 124
    # nextest / cargo may leave grandchildren behind when a test never ends
    try:
        os.killpg(p.pid, signal.SIGKILL)
    except ProcessLookupError:
        pass
    return rc, (out or b"").decode(errors="replace")


def main():
    ap = argparse.ArgumentParser()
    ap.add_argument("--lane", type=int, default=0)
    ap.add_argument("--lanes", type=int, default=1)
    ap.add_argument("--count", type=int, default=10)
    ap.add_argument("--seed", type=int, default=1)
    ap.add_argument("--out", default=None)
    ap.add_argument("--list", action="store_true")
    ap.add_argument("--only", default=None, help="substring a site's path must contain")
    a = ap.parse_args()
    base = f"/tmp/mut/lane{a.lane}"
    repo, verif = base + "/repo", base + "/verif"
    if not os.path.isdir(repo):
        os.makedirs(base, exist_ok=True)
        subprocess.check_call(["git", "-C", "/repo", "worktree", "add", "--detach", repo, "HEAD"], stdout=subprocess.DEVNULL)
    if not os.path.isdir(verif):
        subprocess.check_call(["rsync", "-a", "--exclude", "/target", "--exclude", "/.git", "--exclude", "/mutation", "/verif/", verif + "/"])
    if not os.path.isdir(verif + "/replays.orig"):
        subprocess.run("mkdir -p replays && cp -a replays replays.orig", cwd=verif, shell=True)
    subprocess.run(["git", "-C", repo, "checkout", "--", "."])
    allsites = sites(repo)
    if a.only:
        allsites = [s for s in allsites if a.only in s[0]]
    random.Random(a.seed).shuffle(allsites)
    mine = [s for i, s in enumerate(allsites) if i % a.lanes == a.lane][: a.count]
    if a.list:
        print(len(allsites), "sites;", len(mine), "for this lane")
        for s in mine[:40]:
            print(s[0], s[1] + 1, s[2], "|", s[3].strip()[:100])
        return
    out = a.out or f"/verif/mutation/results_lane{a.lane}.jsonl"
    os.makedirs(os.path.dirname(out), exist_ok=True)
    done = set()
    if os.path.exists(out):
        for l in open(out):
            try:
                d = json.loads(l); done.add((d["file"], d["line"], d["op"]))
            except Exception:
                pass
    env = {"FPV_REPO": repo, "VERIF_SEED": "1"}
    # warm up: build everything once on the unmutated tree
    rc, o = sh("./check --setup", verif, env)
    if rc != 0:
        print("lane setup failed", o[-2000:]); sys.exit(2)
    rc, o = sh("cargo nextest run --workspace --no-fail-fast --offline --test-threads 6 2>&1 | tail -5", repo)
    for rel, n, op, newline in mine:
        if (rel, n + 1, op) in done:
            continue
        t0 = time.time()
        p = os.path.join(repo, rel)
        orig = open(p).read()
        lines = orig.split("\n")
        rec = {"file": rel, "line": n + 1, "op": op, "orig": lines[n].strip(), "mutant": newline.strip()}
        lines[n] = newline
        open(p, "w").write("\n".join(lines))
        try:
            rc, o = sh("./check --setup", verif, env)
            if rc != 0:
                rec["result"] = "uncompilable"
            else:
                rc, o = sh("timeout -k 5 900 cargo nextest run --workspace --no-fail-fast --offline --test-threads 6 2>&1 | grep -E '^ *(Summary|FAIL|error\\[|error:)' | head -8", repo, timeout=1800)
                m = re.search(r"(\d+) passed", o)
                failed = re.search(r"(\d+) failed", o)
                if "FAIL" in o or failed or "timed out" in o:
                    rec["result"] = "killed-by-existing-tests"; rec["detail"] = o.strip().split("\n")[0][:200]
                elif "Summary" not in o:
                    rec["result"] = "tests-did-not-build"; rec["detail"] = o[-300:]
                elif False:
                    rec["result"] = "killed-by-existing-tests"; rec["detail"] = o.strip().split("\n")[0][:200]
                else:
                    first, rest = checks_for(rel)
                    rec["result"] = "survived-all"
                    rec["checks_run"] = []
                    for c in first + rest:
                        rc, o = sh(f"./check {c} quick", verif, env, timeout=1800)
                        rec["checks_run"].append(c)
                        subprocess.run("rm -rf replays && cp -a replays.orig replays", cwd=verif, shell=True)
                        if "VIOLATION" in o:
                            sig = [l for l in o.split("\n") if "violation in phase" in l][:2]
                            rec["result"] = "detected"; rec["by"] = c; rec["sig"] = [s[:260] for s in sig]
                            break
                        if rc not in (0, 1):
                            rec.setdefault("infra", []).append([c, rc, o[-200:]])
        finally:
            open(p, "w").write(orig)
        rec["secs"] = round(time.time() - t0, 1)
        with open(out, "a") as f:
            f.write(json.dumps(rec) + "\n")
        print(rec["result"], rel, n + 1, op, rec.get("by", ""), rec["secs"], flush=True)


if __name__ == "__main__":
    main()
