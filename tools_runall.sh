#!/bin/bash
# runs every check of MANIFEST.json in the given tier (default quick) and prints one line per check
tier=${1:-quick}
cd /verif
for id in $(python3 -c "import json; print(' '.join(c['property_id'] for c in json.load(open('MANIFEST.json'))['checks']))"); do
  s=$(date +%s.%N)
  out=$(./check $id $tier 2>&1); rc=$?
  e=$(date +%s.%N)
  printf "%s rc=%d %6.1fs  %s\n" $id $rc $(echo "$e - $s" | bc) "$(echo "$out" | grep -E '^\[C[0-9]+\] (OK|FAILED)' | cut -c1-150)"
  echo "$out" | grep -E "^(VIOLATION|KNOWN-FINDING)" | head -5
done
