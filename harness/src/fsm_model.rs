//! The documented ITS payload state diagram (doc/ITS_payload_fsm_continuous_mode.puml) transcribed by hand:
//! 8 model states x 12 word classes (DESIGN.md appendix A.1).  Shared by the C09 check and the `fsmseq` fuzz target.

use crate::model::*;
use crate::tape::Tape;

/// model states of the documented diagram
#[derive(Clone, Copy, Debug, PartialEq, Eq, Hash)]
pub enum MS {
    Ihw,
    Tdh,
    Data,
    AfterNoData,
    AfterTdtDone,
    CIhw,
    CTdh,
    CData,
}

/// word classes of the alphabet
#[derive(Clone, Copy, Debug, PartialEq, Eq, Hash)]
pub enum WC {
    Ihw,
    Tdh { nd: bool, c: bool },
    Tdt { done: bool },
    Ddw0,
    Cdw,
    IbData,
    ObData,
    Unknown,
}

pub const ALL_WC: [WC; 12] = [
    WC::Ihw,
    WC::Tdh { nd: false, c: false },
    WC::Tdh { nd: true, c: false },
    WC::Tdh { nd: false, c: true },
    WC::Tdh { nd: true, c: true },
    WC::Tdt { done: false },
    WC::Tdt { done: true },
    WC::Ddw0,
    WC::Cdw,
    WC::IbData,
    WC::ObData,
    WC::Unknown,
];

#[derive(Clone, Copy, Debug, PartialEq, Eq)]
pub enum Class {
    Ihw,
    IhwContinuation,
    Tdh,
    TdhContinuation,
    TdhAfterPacketDone,
    Tdt,
    Cdw,
    Data,
    Ddw0,
}

pub fn class_of_word(w: &[u8]) -> WC {
    match w[9] {
        ID_IHW => WC::Ihw,
        ID_TDH => WC::Tdh { nd: w[1] & 0x20 != 0, c: w[1] & 0x40 != 0 },
        ID_TDT => WC::Tdt { done: w[8] & 1 != 0 },
        ID_DDW0 => WC::Ddw0,
        ID_CDW => WC::Cdw,
        x if is_data_id(x) && x >> 5 == 1 => WC::IbData,
        x if is_data_id(x) => WC::ObData,
        _ => WC::Unknown,
    }
}

/// a representative word of a class (field bits from the tape when given)
pub fn word_of_class(c: WC, t: Option<&mut Tape>) -> Word {
    let mut rnd = [0u8; 10];
    let mut sparse = false;
    if let Some(t) = t {
        match t.below(3) {
            0 => {}
            1 => {
                let b = t.bytes(10);
                rnd.copy_from_slice(&b);
            }
            _ => {
                sparse = true;
                for _ in 0..2 {
                    let bit = t.below(72);
                    rnd[bit / 8] |= 1 << (bit % 8);
                }
            }
        }
        let _ = sparse;
        let pick_unknown = *t.pick(&[0x00u8, 0x01, 0x1F, 0x29, 0x3F, 0x47, 0x4F, 0x57, 0x5F, 0x60, 0xE1, 0xE5, 0xE9, 0xF1, 0xF9, 0xFF, 0xC0]);
        let ib = 0x20 + t.below(9) as u8;
        let ob = *t.pick(&OL_IDS);
        return build_word(c, rnd, pick_unknown, ib, ob);
    }
    build_word(c, rnd, 0x01, 0x20, 0x40)
}

fn build_word(c: WC, mut w: Word, unknown: u8, ib: u8, ob: u8) -> Word {
    match c {
        WC::Ihw => w[9] = ID_IHW,
        WC::Tdh { nd, c } => {
            w[9] = ID_TDH;
            w[1] = (w[1] & !0x60) | if nd { 0x20 } else { 0 } | if c { 0x40 } else { 0 };
        }
        WC::Tdt { done } => {
            w[9] = ID_TDT;
            w[8] = (w[8] & !1) | done as u8;
        }
        WC::Ddw0 => w[9] = ID_DDW0,
        WC::Cdw => w[9] = ID_CDW,
        WC::IbData => w[9] = ib,
        WC::ObData => w[9] = ob,
        WC::Unknown => w[9] = unknown,
    }
    w
}

#[derive(Debug, Clone, Copy, PartialEq, Eq)]
pub enum Step {
    Legal(Class, MS),
    /// illegal word: expected error-code family at that word
    Illegal(&'static str),
}

/// the documented diagram (DESIGN.md appendix A.1). In single-successor states any word is read as the expected
/// word; it is legal only with the right identifier.
pub fn model_step(s: MS, w: &[u8]) -> Step {
    let wc = class_of_word(w);
    let nd_bit = w[1] & 0x20 != 0;
    match s {
        MS::Ihw => {
            if w[9] == ID_IHW {
                Step::Legal(Class::Ihw, MS::Tdh)
            } else {
                Step::Illegal("30")
            }
        }
        MS::Tdh => {
            if w[9] == ID_TDH {
                Step::Legal(Class::Tdh, if nd_bit { MS::AfterNoData } else { MS::Data })
            } else {
                Step::Illegal("40")
            }
        }
        MS::CIhw => {
            if w[9] == ID_IHW {
                Step::Legal(Class::IhwContinuation, MS::CTdh)
            } else {
                Step::Illegal("30")
            }
        }
        MS::CTdh => {
            if w[9] == ID_TDH {
                Step::Legal(Class::TdhContinuation, MS::CData)
            } else {
                Step::Illegal("40")
            }
        }
        MS::Data | MS::CData => match wc {
            WC::IbData | WC::ObData => Step::Legal(Class::Data, s),
            WC::Cdw => Step::Legal(Class::Cdw, s),
            WC::Tdt { done: true } => Step::Legal(Class::Tdt, MS::AfterTdtDone),
            WC::Tdt { done: false } => Step::Legal(Class::Tdt, MS::CIhw),
            _ => Step::Illegal("991"),
        },
        MS::AfterNoData | MS::AfterTdtDone => match wc {
            WC::Tdh { nd, .. } => Step::Legal(Class::TdhAfterPacketDone, if nd { MS::AfterNoData } else { MS::Data }),
            WC::Ihw => Step::Legal(Class::Ihw, MS::Tdh),
            WC::Ddw0 => Step::Legal(Class::Ddw0, MS::Ihw),
            _ => Step::Illegal(if s == MS::AfterNoData { "990" } else { "992" }),
        },
    }
}

/// abstraction from the implementation's state id (hook) to model states
pub fn alpha(id: u8) -> Option<MS> {
    Some(match id {
        0 | 1 => MS::Ihw,
        2 => MS::Tdh,
        3 | 4 => MS::Data,
        5 => MS::AfterNoData,
        6 => MS::AfterTdtDone,
        7 => MS::CIhw,
        8 => MS::CTdh,
        9 | 10 => MS::CData,
        _ => return None,
    })
}

