//! Round-trip oracle for error messages (C07): offsets and quoted bytes are checked against the input.
//! Shared by the C07 check and the `pipeline` fuzz target.

use crate::cli::ErrMsg;
use crate::model::*;
use regex::Regex;
use std::collections::{HashMap, HashSet};
use std::sync::OnceLock;

pub struct Truth {
    pub rdh_starts: HashMap<u64, Rdh>,
    pub word_starts: HashSet<u64>,
    pub len: u64,
}

pub fn truth_of(bytes: &[u8]) -> Truth {
    let (walked, _) = walk(bytes);
    let mut rdh_starts = HashMap::new();
    let mut word_starts = HashSet::new();
    for w in &walked {
        rdh_starts.insert(w.offset, w.rdh.clone());
        let slot = if w.rdh.data_format() == 0 { 16 } else { 10 };
        let mut o = w.payload_start;
        while o + 10 <= w.payload_end {
            word_starts.insert(o as u64);
            o += slot;
        }
    }
    Truth {
        rdh_starts,
        word_starts,
        len: bytes.len() as u64,
    }
}

/// `Frame closing TDT [b0 .. b9]` of an empty-frame message
fn closing_tdt_quote(text: &str) -> Option<[u8; 10]> {
    static RE: OnceLock<Regex> = OnceLock::new();
    let re = RE.get_or_init(|| Regex::new(r"Frame closing TDT \[((?:[0-9A-Fa-f]{2} ?){10})\]").unwrap());
    let c = re.captures(text)?;
    let v: Vec<u8> = c[1].split_whitespace().filter_map(|x| u8::from_str_radix(x, 16).ok()).collect();
    v.try_into().ok()
}

fn ending_at(text: &str) -> Option<u64> {
    static RE: OnceLock<Regex> = OnceLock::new();
    let re = RE.get_or_init(|| Regex::new(r"ending at 0x([0-9A-F]+)").unwrap());
    re.captures(text).and_then(|c| u64::from_str_radix(&c[1], 16).ok())
}

/// the `current :` context row of an RDH message as whitespace-free string
fn current_row(text: &str) -> Option<String> {
    for l in text.lines() {
        if let Some(rest) = l.trim_start().strip_prefix("current :") {
            let rest = rest.split("<---").next().unwrap_or("");
            return Some(rest.chars().filter(|c| !c.is_whitespace()).collect());
        }
    }
    None
}

/// Returns Err(signature, description) if the message is not truthful.
pub fn check_message(m: &ErrMsg, bytes: &[u8], tr: &Truth) -> Result<&'static str, (String, String)> {
    if m.offset >= tr.len {
        return Err(("C07:offset-outside-input".into(), format!("offset {:#X} >= input length {:#X}", m.offset, tr.len)));
    }
    let first_code = m.codes.first().map(|s| s.as_str()).unwrap_or("");
    let is_rdh_level = matches!(first_code, "10" | "11") || m.text.contains("Payload error following RDH");
    if is_rdh_level {
        let Some(r) = tr.rdh_starts.get(&m.offset) else {
            return Err((format!("C07:rdh-msg-not-at-rdh:E{first_code}"), format!("RDH-level message at {:#X} which is not the start of an RDH of the chain", m.offset)));
        };
        if let Some(row) = current_row(&m.text) {
            let want: String = r.view_tokens().concat();
            if row != want {
                return Err(("C07:rdh-context-row-mismatch".into(), format!("`current :` row `{row}` != decode of the 64 bytes at the offset `{want}`")));
            }
            // header fields quoted in the message text itself (`name = value` in the first line)
            let first_line = m.text.lines().next().unwrap_or("");
            static FIELDS: OnceLock<Vec<(&'static str, Regex)>> = OnceLock::new();
            let fields = FIELDS.get_or_init(|| {
                [
                    ("Header size", r"Header size = 0x([0-9a-fA-F]+)"),
                    ("Priority bit", r"Priority bit = 0x([0-9a-fA-F]+)"),
                    ("system_id", r"system_id = 0x([0-9a-fA-F]+)"),
                    ("BC", r"\bBC = 0x([0-9a-fA-F]+)"),
                    ("stop bit", r"stop bit = 0x([0-9a-fA-F]+)"),
                    ("trigger_type", r"trigger_type = 0x([0-9a-fA-F]+)"),
                    ("detector_field", r"detector_field = 0x([0-9a-fA-F]+)"),
                    ("data format", r"data format = 0x([0-9a-fA-F]+)"),
                ]
                .iter()
                .map(|(n, p)| (*n, Regex::new(p).unwrap()))
                .collect()
            });
            for (name, re) in fields.iter() {
                if let Some(c) = re.captures(first_line) {
                    let quoted = u64::from_str_radix(&c[1], 16).unwrap_or(u64::MAX);
                    let stored: u64 = match *name {
                        "Header size" => r.header_size as u64,
                        "Priority bit" => r.priority as u64,
                        "system_id" => r.system_id as u64,
                        "BC" => r.bc() as u64,
                        "stop bit" => r.stop_bit as u64,
                        "trigger_type" => r.trigger_type as u64,
                        "detector_field" => r.detector_field as u64,
                        _ => r.data_format() as u64,
                    };
                    if quoted != stored {
                        return Err((format!("C07:quoted-header-field-differs:{name}"), format!("message at {:#X} quotes {name} = {quoted:#x}, the RDH at that offset stores {stored:#x}", m.offset)));
                    }
                }
            }
            // `<field> changed from <previous> to <current>` (running checks): <current> is the field of the RDH at the offset
            static CHANGED: OnceLock<Regex> = OnceLock::new();
            let changed = CHANGED.get_or_init(|| Regex::new(r"(Orbit|Trigger type|FeeId) changed from 0x([0-9a-fA-F]+) to 0x([0-9a-fA-F]+)").unwrap());
            for c in changed.captures_iter(first_line) {
                let (from, to) = (u64::from_str_radix(&c[2], 16).unwrap_or(u64::MAX), u64::from_str_radix(&c[3], 16).unwrap_or(u64::MAX));
                let stored: u64 = match &c[1] {
                    "Orbit" => r.orbit as u64,
                    "Trigger type" => r.trigger_type as u64,
                    _ => r.fee_id as u64,
                };
                if to != stored || from == stored {
                    return Err((format!("C07:quoted-header-field-differs:{} changed", &c[1]), format!("message at {:#X} says {} changed from {from:#x} to {to:#x}, the RDH at that offset stores {stored:#x}", m.offset, &c[1])));
                }
            }
            // `previous:` rows quote earlier RDHs handled by the same validator: each must be the decode of an RDH of the
            // chain before this one; and when the chain has an earlier RDH with the same link id and FEE id (one that is in
            // the same validator whatever the mode and passes every filter this one passes) a previous row must be there,
            // the last one quoting an RDH that shares the link id or the FEE id
            let prev: Vec<String> = m.text.lines().filter_map(|l| l.trim_start().strip_prefix("previous:").map(|x| x.chars().filter(|c| !c.is_whitespace()).collect())).collect();
            let earlier: Vec<&Rdh> = {
                let mut v: Vec<(&u64, &Rdh)> = tr.rdh_starts.iter().filter(|(o, _)| **o < m.offset).collect();
                v.sort_by_key(|(o, _)| **o);
                v.into_iter().map(|(_, r)| r).collect()
            };
            for p in &prev {
                if !earlier.iter().any(|e| e.view_tokens().concat() == *p) {
                    return Err(("C07:previous-row-not-in-input".into(), format!("`previous:` row `{p}` is not the decode of any RDH before {:#X}", m.offset)));
                }
            }
            if earlier.iter().any(|e| e.link_id == r.link_id && e.fee_id == r.fee_id) {
                let ok = prev.last().map(|p| earlier.iter().any(|e| (e.link_id == r.link_id || e.fee_id == r.fee_id) && e.view_tokens().concat() == *p)).unwrap_or(false);
                if !ok {
                    return Err(("C07:previous-row-missing".into(), format!("RDH message at {:#X}: no `previous:` row of the same link / FEE although the chain has one", m.offset)));
                }
            }
        }
        return Ok("rdh");
    }
    // everything else is about a payload word
    if !tr.word_starts.contains(&m.offset) {
        return Err((format!("C07:word-msg-not-at-word:E{first_code}"), format!("word-level message at {:#X} which is not the start of a payload word", m.offset)));
    }
    if let Some(d) = m.dump {
        let o = m.offset as usize;
        if bytes[o..o + 10] != d {
            return Err((
                format!("C07:quoted-bytes-differ:E{first_code}"),
                format!("message quotes [{}] but the input holds [{}] at {:#X}", word_hex(&d), word_hex(&bytes[o..o + 10]), m.offset),
            ));
        }
    }
    if matches!(first_code, "59" | "701" | "72" | "73" | "74" | "75") && m.dump.is_none() {
        if first_code == "59" {
            if bytes[m.offset as usize + 9] != ID_TDT {
                return Err(("C07:E59-not-at-tdt".into(), "E59 is about a TDT but the word at the offset does not carry the TDT id".into()));
            }
        } else if let Some(e) = ending_at(&m.text) {
            if !tr.word_starts.contains(&e) || e >= tr.len || bytes[e as usize + 9] != ID_TDT {
                return Err((format!("C07:frame-end-not-at-tdt:E{first_code}"), format!("`ending at {e:#X}` is not the start of a TDT word")));
            }
            if e < m.offset {
                return Err((format!("C07:frame-end-before-start:E{first_code}"), format!("frame end {e:#X} lies before frame start {:#X}", m.offset)));
            }
            // the closing TDT quoted as context is the word stored at `ending at`
            if let Some(q) = closing_tdt_quote(&m.text) {
                if bytes[e as usize..e as usize + 10] != q {
                    return Err((
                        format!("C07:quoted-closing-tdt-differs:E{first_code}"),
                        format!("message quotes the frame closing TDT as [{}] but the input holds [{}] at {e:#X}", word_hex(&q), word_hex(&bytes[e as usize..e as usize + 10])),
                    ));
                }
            }
        }
        return Ok("frame");
    }
    Ok("word")
}

