//! Generators: G_conf (conforming streams by construction), G_frame (well-framed arbitrary
//! streams), G_mut (structure-aware corruption).  All randomness comes from the tape.

use crate::alpide::{self, ChipSpec, LaneSpec};
use crate::model::*;
use crate::tape::Tape;

#[derive(Clone, Debug)]
pub struct FrameMeta {
    /// (packet idx in link, word idx) of the TDH that may be reported as frame start: first is the
    /// earliest admissible (a no-data TDH directly before), last is the frame's own TDH
    pub start_candidates: Vec<(usize, usize)>,
    /// closing TDT (packet_done = 1)
    pub end: (usize, usize),
    pub lanes: Vec<LaneSpec>,
    pub bc: u8,
    pub pages: usize,
}

#[derive(Clone, Debug, Default)]
pub struct LinkMeta {
    pub frames: Vec<FrameMeta>,
    pub n_hbf: usize,
}

#[derive(Clone, Debug)]
pub struct ConfOpts {
    pub max_links: usize,
    pub min_links: usize,
    pub max_hbfs: usize,
    pub max_triggers: usize,
    /// probability (x/16) that the stream is inflated beyond 100 packets
    pub big_16: u32,
    /// only these barrels (None = all)
    pub barrel: Option<Barrel>,
    /// force one data format / version for all links (None = random per link)
    pub format: Option<u8>,
    pub rich_hits: bool,
    /// OB chip ids fixed to 0..6 / 8..14 with 7 chips (for custom checks)
    pub ob_standard_chips: bool,
    /// a lane may announce a fatal state (APE) and then stays away from all later frames of the link
    pub allow_fatal_lanes: bool,
}

impl Default for ConfOpts {
    fn default() -> Self {
        ConfOpts {
            max_links: 12,
            min_links: 1,
            max_hbfs: 4,
            max_triggers: 5,
            big_16: 2,
            barrel: None,
            format: None,
            rich_hits: false,
            ob_standard_chips: false,
            allow_fatal_lanes: false,
        }
    }
}

#[derive(Clone)]
pub struct ConfStream {
    pub stream: Stream,
    pub metas: Vec<LinkMeta>,
    pub labels: Vec<String>,
}

fn gen_trigger_type(t: &mut Tape) -> u32 {
    // bits 26:15 must be 0; HB(1) SOC(9) PhT(4) SOT(7) weighted
    let mut x = t.u32() & !0x07FF_8000;
    if t.chance(1, 2) {
        x |= 0x2; // HB
    }
    if t.chance(1, 4) {
        x |= 0x10; // PhT
    }
    if t.chance(1, 4) {
        x &= 0xFFFF_F000; // low 12 bits zero -> TDH needs internal trigger
    }
    if x == 0 {
        x = 1 << (t.below(15) as u32);
    }
    x
}

fn gen_bc(t: &mut Tape) -> u16 {
    match t.weighted(&[6, 2, 1]) {
        0 => t.below(0xDEC) as u16,
        1 => 0xDEB,
        _ => 0,
    }
}

fn gen_detector_field(t: &mut Tape) -> u32 {
    match t.weighted(&[2, 3]) {
        0 => 0,
        _ => t.u32() & !0x00FF_F000,
    }
}

fn gen_lane_ids(t: &mut Tape, barrel: Barrel) -> Vec<u8> {
    match barrel {
        Barrel::Inner => {
            let g = t.below(3) as u8;
            vec![0x20 + 3 * g, 0x21 + 3 * g, 0x22 + 3 * g]
        }
        Barrel::Middle => {
            match t.below(3) {
                0 => ML_IDS[0..8].to_vec(),
                1 => ML_IDS[8..16].to_vec(),
                _ => choose_k(t, &ML_IDS, 8),
            }
        }
        Barrel::Outer => match t.below(3) {
            0 => OL_IDS[0..14].to_vec(),
            1 => OL_IDS[14..28].to_vec(),
            _ => choose_k(t, &OL_IDS, 14),
        },
    }
}

pub fn choose_k(t: &mut Tape, pool: &[u8], k: usize) -> Vec<u8> {
    let mut p: Vec<u8> = pool.to_vec();
    let mut out = vec![];
    for _ in 0..k.min(pool.len()) {
        let i = t.below(p.len());
        out.push(p.remove(i));
    }
    out.sort_unstable();
    out
}

/// A conforming frame's lanes: all chips carry `bc`; IB: one chip whose id is the lane number.
pub fn gen_conf_lanes(t: &mut Tape, barrel: Barrel, lane_ids: &[u8], bc: u8, o: &ConfOpts) -> Vec<LaneSpec> {
    let mut lanes = vec![];
    for &id in lane_ids {
        let chips: Vec<ChipSpec> = match barrel {
            Barrel::Inner => vec![gen_chip(t, lane_of_id(id), bc, o.rich_hits)],
            _ => {
                let ids: Vec<u8> = if o.ob_standard_chips {
                    if t.chance(1, 2) {
                        (8..15).collect()
                    } else {
                        (0..7).collect()
                    }
                } else {
                    match t.weighted(&[4, 4, 3]) {
                        0 => (0..7).collect(),
                        1 => (8..15).collect(),
                        _ => {
                            let k = 1 + t.below(7);
                            let all: Vec<u8> = (0..16).collect();
                            let mut c = choose_k(t, &all, k);
                            if t.chance(1, 3) {
                                c.reverse();
                            }
                            c
                        }
                    }
                };
                ids.into_iter().map(|cid| gen_chip(t, cid, bc, o.rich_hits)).collect()
            }
        };
        lanes.push(LaneSpec {
            id,
            pad_before: if t.chance(1, 8) { t.below(4) as u8 } else { 0 },
            chips,
            fatal_ape: None,
        });
    }
    lanes
}

pub fn gen_chip(t: &mut Tape, id: u8, bc: u8, rich: bool) -> ChipSpec {
    let empty = t.chance(1, 4);
    ChipSpec {
        id,
        bc,
        empty,
        flags: if t.chance(1, 3) { t.u8() & 0xF } else { 0 },
        items: if empty { vec![] } else { alpide::gen_items(t, rich) },
        pad_after: if t.chance(1, 6) { t.below(5) as u8 } else { 0 },
        busy_after: if t.chance(1, 10) { 1 + t.below(2) as u8 } else { 0 },
    }
}

/// interleave the lanes' 9-byte pieces into data words (order inside a lane preserved)
pub fn interleave_lanes(t: &mut Tape, lanes: &[LaneSpec]) -> Vec<Word> {
    let pieces: Vec<Vec<[u8; 9]>> = lanes.iter().map(|l| l.pieces()).collect();
    let lens: Vec<usize> = pieces.iter().map(|p| p.len()).collect();
    let order = match t.below(3) {
        0 => order_contiguous(&lens),
        1 => order_round_robin(&lens),
        _ => order_random(&lens, t),
    };
    let mut next = vec![0usize; lanes.len()];
    let mut out = vec![];
    for l in order {
        out.push(data_word(lanes[l].id, &pieces[l][next[l]]));
        next[l] += 1;
    }
    out
}

fn lanes_mask(lane_ids: &[u8]) -> u32 {
    lane_ids.iter().fold(0u32, |m, id| m | (1u32 << lane_of_id(*id)))
}

struct LinkParams {
    link_id: u8,
    fee: u16,
    version: u8,
    format: u8,
    barrel: Barrel,
    lane_ids: Vec<u8>,
    cruid_dw: u16,
}

/// one conforming link: HBF+ ; returns packets and meta
fn gen_conf_link(t: &mut Tape, lp: &LinkParams, o: &ConfOpts, n_hbf: usize, labels: &mut Vec<String>) -> (Link, LinkMeta) {
    let mut packets: Vec<Packet> = vec![];
    let mut meta = LinkMeta::default();
    let mut orbit: u32 = match t.below(5) {
        0 => 0u32.wrapping_sub(1), // first HBF gets orbit 0 or slightly above
        1 => t.below(200) as u32,
        2 => u32::MAX - t.below(4000) as u32, // wraps around inside the stream
        _ => t.u32(),
    };
    let mut pkt_cnt: u8 = t.u8();
    let mut cdw_user: u64 = t.u64() & 0xFFFF_FFFF_FFFF;
    let mut cdw_index: u32 = 0;
    // every non-continuation TDH since the last frame close (the tool opens a frame at the first of them)
    let mut pending_nodata_start: Vec<(usize, usize)> = vec![];
    let mut fatal_lanes: Vec<u8> = vec![];
    for _h in 0..n_hbf {
        orbit = orbit.wrapping_add(1 + t.below(3) as u32 * t.below(1000) as u32);
        let trg = gen_trigger_type(t);
        let det = gen_detector_field(t);
        let bc0 = gen_bc(t);
        let mk_rdh = |page: u16, stop: u8, bc: u16, pc: u8| -> Rdh {
            Rdh {
                version: lp.version,
                fee_id: lp.fee,
                link_id: lp.link_id,
                packet_counter: pc,
                cruid_dw: lp.cruid_dw,
                bc_word: bc as u32,
                orbit,
                format_word: lp.format as u64,
                trigger_type: trg,
                pages_counter: page,
                stop_bit: stop,
                detector_field: det,
                par_bit: 0,
                ..Rdh::default()
            }
        };
        // ---- build pages
        let mut page_no: u16 = 0;
        let mut cur = Packet::new(mk_rdh(0, 0, bc0, pkt_cnt));
        pkt_cnt = pkt_cnt.wrapping_add(1);
        let mut page_lanes_mask: u32 = 0; // lanes used on the current page
        let mut ihw_pos: usize = 0;
        // IHW placeholder + first TDH
        cur.words.push(ihw(0));
        cur.frame_of_word.push(usize::MAX);
        let rdh_tt12 = (trg & 0xFFF) as u16;
        let n_trig = 1 + t.below(o.max_triggers);
        let mut last_bc = bc0;
        let mut first_on_page = true;
        let mut open_new_page_next = false;
        for trig_i in 0..n_trig {
            let is_last = trig_i + 1 == n_trig;
            // maybe start a new page before this trigger (only between complete triggers)
            if trig_i > 0 && (open_new_page_next || t.chance(1, 4) || cur.words.len() > 300) {
                finish_page(&mut cur, ihw_pos, page_lanes_mask, &lp.lane_ids, t, lp.format);
                packets.push(cur);
                page_no += 1;
                cur = Packet::new(mk_rdh(page_no, 0, if t.chance(1, 2) { bc0 } else { gen_bc(t) }, pkt_cnt));
                pkt_cnt = pkt_cnt.wrapping_add(1);
                cur.words.push(ihw(0));
                cur.frame_of_word.push(usize::MAX);
                ihw_pos = 0;
                page_lanes_mask = 0;
                first_on_page = true;
                open_new_page_next = false;
                // a frame start reported at a no-data TDH of the previous page is still admissible
            }
            // TDH fields
            let (tt, internal) = if first_on_page && page_no == 0 {
                // page 0 first TDH: must mirror the RDH
                (rdh_tt12, rdh_tt12 == 0 || t.chance(1, 3))
            } else {
                let internal = t.chance(1, 2);
                let mut tt = t.u16() & 0xFFF;
                if t.chance(1, 4) {
                    tt |= 0x10;
                }
                if tt == 0 && !internal {
                    tt = 1 << t.below(12);
                }
                (tt, internal)
            };
            let bc = if first_on_page && page_no == 0 {
                bc0
            } else if t.chance(1, 5) {
                last_bc // equal consecutive BCs are legal
            } else {
                let hi = 0xDEB_u16;
                last_bc + (t.below((hi - last_bc) as usize + 1) as u16)
            };
            last_bc = bc;
            let no_data = t.chance(1, 4);
            let f = TdhF {
                trigger_type: tt,
                internal,
                no_data,
                continuation: false,
                bc,
                orbit,
            };
            let tdh_pos = (packets.len(), cur.words.len());
            cur.words.push(tdh(&f));
            cur.frame_of_word.push(usize::MAX);
            if no_data {
                labels.push("nodata_tdh".into());
                if !pending_nodata_start.is_empty() {
                    labels.push("nodata_run>=2".into());
                }
                pending_nodata_start.push(tdh_pos);
                first_on_page = false;
                continue;
            }
            // ---- frame with data
            let frame_idx = meta.frames.len();
            let mut start_candidates = std::mem::take(&mut pending_nodata_start);
            start_candidates.push(tdh_pos);
            *cur.frame_of_word.last_mut().unwrap() = frame_idx;
            // CDW directly after the first TDH of the packet
            if first_on_page && t.chance(1, 5) {
                if t.chance(1, 3) {
                    cdw_user = t.u64() & 0xFFFF_FFFF_FFFF;
                    cdw_index = 0;
                } else {
                    cdw_index = cdw_index.wrapping_add(1) & 0xFF_FFFF;
                }
                cur.words.push(cdw(cdw_user, cdw_index));
                cur.frame_of_word.push(usize::MAX);
                labels.push("cdw".into());
            }
            first_on_page = false;
            let fbc = t.u8();
            let live_ids: Vec<u8> = lp.lane_ids.iter().copied().filter(|id| !fatal_lanes.contains(id)).collect();
            let mut lanes = gen_conf_lanes(t, lp.barrel, &live_ids, fbc, o);
            if o.allow_fatal_lanes && lanes.len() >= 2 && t.chance(1, 40) {
                // the announcing frame still carries the lane; later frames do not
                let i = t.below(lanes.len());
                lanes[i].fatal_ape = Some(*t.pick(&alpide::APE_FATAL));
                fatal_lanes.push(lanes[i].id);
                labels.push("fatal_lane_announced".into());
            }
            let dws = interleave_lanes(t, &lanes);
            // split over pages?
            let n_splits = if is_last && false { 0 } else { t.weighted(&[6, 3, 1]) };
            let mut cut_points: Vec<usize> = vec![];
            for _ in 0..n_splits {
                if dws.len() >= 2 {
                    // `carry := data* TDT`: a piece may hold no data word at all (cut at 0 or at the end), rarely
                    cut_points.push(match t.weighted(&[10, 1, 1]) {
                        0 => 1 + t.below(dws.len() - 1),
                        1 => 0,
                        _ => dws.len(),
                    });
                }
            }
            {
                // never exceed ~500 words per page (payload limit is 10 000 bytes)
                let mut pos = 0usize;
                let mut cap = 500usize.saturating_sub(cur.words.len()).max(1);
                while dws.len() - pos > cap {
                    pos += cap;
                    cut_points.push(pos);
                    cap = 480;
                }
            }
            cut_points.sort_unstable();
            cut_points.dedup();
            let empty_last_piece = cut_points.last() == Some(&dws.len());
            // the random cuts may leave a piece longer than a page: refine
            {
                let mut refined = vec![];
                let mut prev = 0usize;
                let mut first_cap = 500usize.saturating_sub(cur.words.len()).max(1);
                for cp in cut_points.iter().copied().chain(std::iter::once(dws.len())) {
                    let mut cap = if prev == 0 { first_cap } else { 480 };
                    while cp - prev > cap {
                        prev += cap;
                        refined.push(prev);
                        cap = 480;
                    }
                    if cp < dws.len() {
                        refined.push(cp);
                    }
                    prev = cp;
                    first_cap = 480;
                }
                refined.sort_unstable();
                refined.dedup();
                if empty_last_piece {
                    // continuation page that carries no data word, only the closing TDT
                    refined.push(dws.len());
                    labels.push("continuation_page_without_data".into());
                }
                cut_points = refined;
            }
            let mut pages_of_frame = 1;
            let mut start = 0;
            let this_tdh = f;
            for (ci, cp) in cut_points.iter().chain(std::iter::once(&dws.len())).enumerate() {
                for w in &dws[start..*cp] {
                    page_lanes_mask |= 1u32 << lane_of_id(w[9]);
                    cur.words.push(*w);
                    cur.frame_of_word.push(frame_idx);
                }
                start = *cp;
                let last_piece = ci == cut_points.len();
                let lane_status = if t.chance(1, 4) { t.u64() & 0x00FF_FFFF_FFFF_FFFF } else { 0 };
                let flags = if t.chance(1, 6) { t.u8() } else { 0 };
                cur.words.push(tdt(lane_status, flags & 7, last_piece, flags & 8 != 0, flags & 16 != 0));
                cur.frame_of_word.push(frame_idx);
                if !last_piece {
                    // continue on next page: IHW + TDH(cont)
                    labels.push("continuation".into());
                    pages_of_frame += 1;
                    finish_page(&mut cur, ihw_pos, page_lanes_mask, &lp.lane_ids, t, lp.format);
                    packets.push(cur);
                    page_no += 1;
                    cur = Packet::new(mk_rdh(page_no, 0, if t.chance(1, 2) { bc0 } else { gen_bc(t) }, pkt_cnt));
                    pkt_cnt = pkt_cnt.wrapping_add(1);
                    cur.words.push(ihw(0));
                    cur.frame_of_word.push(usize::MAX);
                    ihw_pos = 0;
                    page_lanes_mask = 0;
                    let mut cf = this_tdh;
                    cf.continuation = true;
                    cur.words.push(tdh(&cf));
                    cur.frame_of_word.push(frame_idx);
                    // a calibration word is legal at the start of the data of ANY page, also a continuation page
                    if t.chance(1, 5) {
                        if t.chance(1, 3) {
                            cdw_user = t.u64() & 0xFFFF_FFFF_FFFF;
                            cdw_index = 0;
                        } else {
                            cdw_index = cdw_index.wrapping_add(1) & 0xFF_FFFF;
                        }
                        cur.words.push(cdw(cdw_user, cdw_index));
                        cur.frame_of_word.push(usize::MAX);
                        labels.push("cdw_on_continuation_page".into());
                    }
                }
            }
            let end = (packets.len(), cur.words.len() - 1);
            meta.frames.push(FrameMeta {
                start_candidates,
                end,
                lanes,
                bc: fbc,
                pages: pages_of_frame,
            });
            if pages_of_frame > 1 && t.chance(1, 3) {
                open_new_page_next = true;
            }
        }
        finish_page(&mut cur, ihw_pos, page_lanes_mask, &lp.lane_ids, t, lp.format);
        packets.push(cur);
        // ---- stop page
        page_no += 1;
        let mut stop = Packet::new(mk_rdh(page_no, 1, if t.chance(1, 2) { bc0 } else { gen_bc(t) }, pkt_cnt));
        pkt_cnt = pkt_cnt.wrapping_add(1);
        let ls = if t.chance(1, 3) { t.u64() & 0x00FF_FFFF_FFFF_FFFF } else { 0 };
        stop.words.push(ddw0(ls, t.chance(1, 8), t.chance(1, 8), 0));
        stop.frame_of_word.push(usize::MAX);
        if lp.format == 2 {
            stop.pad = gen_pad(t);
        }
        stop.fix_sizes();
        packets.push(stop);
        labels.push(format!("hbf_pages:{}", (page_no + 1).min(5)));
        meta.n_hbf += 1;
    }
    (
        Link {
            packets,
            barrel: lp.barrel,
            lane_ids: lp.lane_ids.clone(),
        },
        meta,
    )
}

fn gen_pad(t: &mut Tape) -> usize {
    match t.weighted(&[2, 6, 1]) {
        0 => 0,
        1 => t.below(16),
        _ => 15,
    }
}

fn finish_page(p: &mut Packet, ihw_pos: usize, used_mask: u32, _lane_ids: &[u8], t: &mut Tape, format: u8) {
    // IHW active lanes: superset of the lanes used on this page
    let extra = if t.chance(1, 3) { t.u32() & 0x0FFF_FFFF } else { 0 };
    p.words[ihw_pos] = ihw(used_mask | extra | if t.chance(1, 2) { lanes_mask(_lane_ids) } else { 0 });
    if format == 2 {
        p.pad = gen_pad(t);
    }
    p.fix_sizes();
}

pub const CONF_TAPE_LEN: usize = 64 + 2000 + 12 * 4000 + 14000;

pub fn gen_conf_stream(t0: &mut Tape, o: &ConfOpts) -> ConfStream {
    let mut labels: Vec<String> = vec![];
    // global decisions first, from their own region of the tape
    let mut g = t0.fork(64);
    let t = &mut g;
    let n_links = (1 + t.weighted(&[4, 3, 2, 1, 1, 1, 1, 1, 1, 1, 1, 1][..o.max_links.min(12)])).max(o.min_links);
    let big = t.chance(o.big_16, 16);
    let interleave_kind = t.below(3);
    let mut order_tape = t0.fork(2000);
    // distinct link ids and FEE ids
    let mut link_ids: Vec<u8> = vec![];
    let mut fees: Vec<u16> = vec![];
    let mut links = vec![];
    let mut metas = vec![];
    for li in 0..n_links {
        let mut link_id = if t.chance(1, 6) { t.u8() } else { t.below(16) as u8 };
        while link_ids.contains(&link_id) {
            link_id = link_id.wrapping_add(1);
        }
        link_ids.push(link_id);
        let barrel = o.barrel.unwrap_or(*t.pick(&[Barrel::Inner, Barrel::Middle, Barrel::Outer]));
        let layer = match barrel {
            Barrel::Inner => t.below(3) as u8,
            Barrel::Middle => 3 + t.below(2) as u8,
            Barrel::Outer => 5 + t.below(2) as u8,
        };
        let n_st = STAVES_PER_LAYER[layer as usize];
        let mut stave = if t.chance(1, 5) { n_st - 1 } else { t.below(n_st as usize) as u8 };
        let mut fiber = t.below(4) as u8;
        let mut fee = fee_id(layer, fiber, stave);
        let mut guard = 0;
        while fees.contains(&fee) {
            fiber = (fiber + 1) & 3;
            if fiber == 0 {
                stave = (stave + 1) % n_st;
            }
            fee = fee_id(layer, fiber, stave);
            guard += 1;
            if guard > 300 {
                break;
            }
        }
        fees.push(fee);
        if layer == 6 && stave == 47 {
            labels.push("stave47".into());
        }
        let lp = LinkParams {
            link_id,
            fee,
            version: if t.chance(1, 2) { 7 } else { 6 },
            format: o.format.unwrap_or(if t.chance(1, 2) { 2 } else { 0 }),
            barrel,
            lane_ids: gen_lane_ids(t, barrel),
            cruid_dw: (t.u16() & 0x0FFF) | ((t.below(2) as u16) << 12),
        };
        let n_hbf = if big && li == 0 {
            match t.below(4) {
                0 => 50, // exactly 100 packets when every HBF has two pages is decided by content; see labels
                1 => 34,
                2 => 67,
                _ => 101,
            }
        } else {
            1 + t.below(o.max_hbfs)
        };
        let mut sub = ConfOpts { ..o.clone() };
        if big && li == 0 {
            sub.max_triggers = 2;
        }
        let mut lt = t0.fork(if big && li == 0 { 14000 } else { 4000 });
        let (link, meta) = gen_conf_link(&mut lt, &lp, &sub, n_hbf, &mut labels);
        if lt.exhausted() {
            labels.push("link_tape_exhausted".into());
        }
        labels.push(format!("barrel:{}", barrel.name()));
        labels.push(format!("format:{}", lp.format));
        labels.push(format!("rdh_v{}", lp.version));
        links.push(link);
        metas.push(meta);
    }
    let lens: Vec<usize> = links.iter().map(|l| l.packets.len()).collect();
    let order = if n_links == 1 {
        order_contiguous(&lens)
    } else {
        match interleave_kind {
            0 => {
                labels.push("interleave:contiguous".into());
                order_contiguous(&lens)
            }
            1 => {
                labels.push("interleave:round_robin".into());
                order_round_robin(&lens)
            }
            _ => {
                labels.push("interleave:random".into());
                order_random(&lens, &mut order_tape)
            }
        }
    };
    let total: usize = lens.iter().sum();
    labels.push(format!("links:{}", if n_links >= 4 { "4+".to_string() } else { n_links.to_string() }));
    labels.push(
        match total {
            0..=99 => "packets:<100",
            100 => "packets:=100",
            101..=199 => "packets:101-199",
            200 => "packets:=200",
            _ => "packets:>200",
        }
        .to_string(),
    );
    if total % 100 == 0 {
        labels.push("packets:multiple_of_100".into());
    }
    for l in &links {
        for p in &l.packets {
            if p.rdh.data_format() == 2 {
                labels.push(format!("pad:{}", p.pad));
            }
            if p.rdh.bc() == 0xDEB {
                labels.push("bc=0xDEB".into());
            }
        }
    }
    labels.sort();
    labels.dedup();
    ConfStream {
        stream: Stream { links, order },
        metas,
        labels,
    }
}

/// pad a conforming stream with extra HBFs on link 0 so that the total packet count is exactly `target`
/// (only possible when target >= current and parity works; returns false if not reached)
pub fn pad_to_packet_count(cs: &mut ConfStream, target: usize) -> bool {
    let total = cs.stream.n_packets();
    if total > target || (target - total) == 1 {
        return false;
    }
    let mut need = target - total;
    // append minimal HBFs: data page (IHW, TDH no-data) + stop page = 2 packets; a 3-packet HBF
    // uses two data pages
    let link = &mut cs.stream.links[0];
    let tmpl = link.packets[0].rdh.clone();
    let mut orbit = link.packets.last().unwrap().rdh.orbit;
    while need > 0 {
        let pages = if need == 3 { 2 } else { 1 };
        orbit = orbit.wrapping_add(1);
        for pg in 0..pages {
            let mut r = tmpl.clone();
            r.orbit = orbit;
            r.pages_counter = pg as u16;
            r.stop_bit = 0;
            let mut p = Packet::new(r.clone());
            p.words.push(ihw(0));
            let tt = (r.trigger_type & 0xFFF) as u16;
            p.words.push(tdh(&TdhF {
                trigger_type: tt,
                internal: true,
                no_data: true,
                continuation: false,
                bc: r.bc(),
                orbit,
            }));
            p.frame_of_word = vec![usize::MAX; 2];
            p.fix_sizes();
            link.packets.push(p);
            cs.stream.order.push(0);
        }
        let mut r = tmpl.clone();
        r.orbit = orbit;
        r.pages_counter = pages as u16;
        r.stop_bit = 1;
        let mut p = Packet::new(r);
        p.words.push(ddw0(0, false, false, 0));
        p.frame_of_word = vec![usize::MAX];
        p.fix_sizes();
        link.packets.push(p);
        cs.stream.order.push(0);
        need -= pages + 1;
    }
    true
}

// ------------------------------------------------------------------------------------------------
// G_frame: well-framed arbitrary streams
// ------------------------------------------------------------------------------------------------

#[derive(Clone, Debug)]
pub struct FrameOpts {
    pub max_packets: usize,
    /// payload generator: raw random bytes, or word-structured per the header's format
    pub word_payload: bool,
    pub max_payload: usize,
    /// restrict layers to 0..=6 (views panic on layer 7: known finding territory of C04)
    pub valid_layers: bool,
    pub its_first: bool,
    /// every packet's RDH0 passes the documented pre-check and carries a known system id
    /// (needed when any packet may become the first packet of a derived file)
    pub all_rdh0_valid: bool,
    /// two thirds of the raw payloads between 4 000 and 10 000 bytes (streams that outgrow the reader's 50 KiB buffer)
    pub mostly_large: bool,
    /// 101..=140 packets whose raw payloads all lie between 8 300 and 10 000 bytes: every internal batch of 100 packets
    /// carries close to the largest amount of payload the format allows
    pub near_max: bool,
}

impl Default for FrameOpts {
    fn default() -> Self {
        FrameOpts {
            max_packets: 40,
            word_payload: false,
            max_payload: 10_000,
            valid_layers: false,
            its_first: false,
            all_rdh0_valid: false,
            mostly_large: false,
            near_max: false,
        }
    }
}

pub fn gen_any_word(t: &mut Tape) -> Word {
    let id = match t.weighted(&[3, 3, 3, 2, 2, 6, 2, 1]) {
        0 => ID_IHW,
        1 => ID_TDH,
        2 => ID_TDT,
        3 => ID_DDW0,
        4 => ID_CDW,
        5 => *t.pick(&[0x20u8, 0x21, 0x28, 0x40, 0x43, 0x46, 0x48, 0x4E, 0x50, 0x56, 0x58, 0x5E]),
        6 => *t.pick(&[0x1Fu8, 0x29, 0x3F, 0x47, 0x4F, 0x57, 0x5F, 0x00, 0x01, 0xE5, 0xF1, 0xE9, 0xFE]),
        _ => t.u8(),
    };
    let mut w = [0u8; 10];
    match t.weighted(&[3, 3, 2]) {
        0 => {}
        1 => {
            let b = t.bytes(9);
            w[..9].copy_from_slice(&b);
        }
        _ => {
            // sparse bits
            for _ in 0..(1 + t.below(4)) {
                let bit = t.below(72);
                w[bit / 8] |= 1 << (bit % 8);
            }
        }
    }
    w[9] = id;
    // now and then a word of ten 0xFF bytes (looks like padding, is a word with an unrecognised identifier when it is not at the end)
    if t.chance(1, 24) {
        w = [0xFF; 10];
    }
    w
}

/// Population of links / FEE ids with deliberate collisions.
pub struct Population {
    pub links: Vec<u8>,
    pub fees: Vec<u16>,
}

pub fn gen_population(t: &mut Tape, valid_layers: bool) -> Population {
    // usually a handful of links / FEE ids; now and then many (every link id gets its own validator thread)
    let many = t.chance(1, 14);
    let nl = if many { 20 + t.below(200) } else { 1 + t.below(5) };
    let nf = if many { 10 + t.below(60) } else { 1 + t.below(5) };
    let mut links = vec![];
    for _ in 0..nl {
        links.push(if many { (links.len() as u8).wrapping_mul(7).wrapping_add(3) } else if t.chance(1, 4) { t.u8() } else { t.below(16) as u8 });
    }
    let mut fees = vec![];
    for _ in 0..nf {
        let f = if valid_layers || t.chance(3, 4) {
            let layer = t.below(7) as u8;
            let stave = if t.chance(1, 3) { 32 + t.below(16) as u8 } else { t.below(48) as u8 };
            fee_id(layer, t.below(4) as u8, stave) | if !valid_layers && t.chance(1, 8) { 0x0040 << t.below(2) } else { 0 }
        } else {
            t.u16()
        };
        fees.push(f);
    }
    Population { links, fees }
}

/// well-framed stream with arbitrary header values; packet 0 passes the documented pre-check
pub fn gen_frame_stream(t: &mut Tape, o: &FrameOpts) -> (Stream, Vec<String>) {
    let mut labels = vec![];
    let pop = gen_population(t, o.valid_layers);
    if pop.links.len() >= 20 {
        labels.push("population:many_links".into());
    }
    let n = match t.weighted(&[1, 2, 8, 2, 1, 1, 1]) {
        0 => 1,
        1 => 2,
        2 => 3 + t.below(o.max_packets.max(4) - 3),
        3 => 99 + t.below(3),
        4 => 199 + t.below(3),
        5 => 300,
        _ => 100,
    };
    let n = if o.near_max { 101 + t.below(40) } else { n.min(o.max_packets.max(1)) };
    if o.near_max {
        labels.push("batches_near_max_payload".into());
    }
    let sys0 = if o.its_first || t.chance(2, 3) { 0x20 } else { *t.pick(&KNOWN_SYSTEM_IDS) };
    let version0 = *t.pick(&[7u8, 6, 3, 100, 8]);
    let fmt_mode = t.below(3); // 0: all fmt0, 1: all fmt2, 2: mixed
    let mut packets = vec![];
    for i in 0..n {
        let mut r = Rdh {
            version: if t.chance(7, 8) { version0 } else { t.u8() },
            header_size: if t.chance(7, 8) { 0x40 } else { t.u8() },
            fee_id: *t.pick(&pop.fees),
            priority: if t.chance(7, 8) { 0 } else { t.u8() },
            system_id: if t.chance(7, 8) { sys0 } else { t.u8() },
            rdh0_reserved: if t.chance(7, 8) { 0 } else { t.u16() },
            offset_next: 64,
            memory_size: 64,
            link_id: *t.pick(&pop.links),
            packet_counter: t.u8(),
            cruid_dw: t.u16(),
            bc_word: if t.chance(3, 4) { t.below(0xDEC) as u32 } else { t.u32() },
            orbit: t.u32(),
            format_word: match fmt_mode {
                0 => 0,
                1 => 2,
                _ => {
                    if t.chance(1, 2) {
                        2
                    } else {
                        0
                    }
                }
            } | if t.chance(1, 10) { (t.u64() << 8) | if o.word_payload { 0 } else { (t.u8() as u64) & 0xFF } } else { 0 },
            trigger_type: if t.chance(1, 2) { gen_trigger_type(t) } else { t.u32() },
            pages_counter: if t.chance(3, 4) { t.below(4) as u16 } else { t.u16() },
            stop_bit: match t.weighted(&[5, 4, 1]) {
                0 => 0,
                1 => 1,
                _ => t.u8(),
            },
            rdh2_reserved: if t.chance(7, 8) { 0 } else { t.u8() },
            reserved1: if t.chance(7, 8) { 0 } else { t.u64() },
            detector_field: if t.chance(1, 2) { t.u32() & 0xFFF } else { t.u32() },
            par_bit: t.u16(),
            rdh3_reserved: if t.chance(7, 8) { 0 } else { t.u16() },
            reserved2: if t.chance(7, 8) { 0 } else { t.u64() },
        };
        if i == 0 {
            // documented pre-check on the very first RDH0 (otherwise processing is refused)
            r.version = version0;
            r.header_size = 0x40;
            r.priority = 0;
            r.rdh0_reserved = 0;
            r.system_id = sys0;
            let layer = t.below(7) as u8;
            r.fee_id = fee_id(layer, t.below(4) as u8, t.below(48) as u8);
        }
        if o.valid_layers && r.layer() > 6 {
            r.fee_id &= 0x0FFF;
        }
        if o.all_rdh0_valid && i > 0 {
            r.version = version0;
            r.header_size = 0x40;
            r.priority = 0;
            r.rdh0_reserved = 0;
            if !KNOWN_SYSTEM_IDS.contains(&r.system_id) {
                r.system_id = sys0;
            }
            r.fee_id = fee_id(r.layer() % 7, ((r.fee_id >> 8) & 3) as u8, r.stave() % 48);
        }
        let mut p = Packet::new(r);
        if o.word_payload {
            let nw = match if o.near_max { 3 } else { t.weighted(&[8, 24, 8, 1]) } {
                0 => 0,
                1 => 1 + t.below(8),
                2 => 1 + t.below(60),
                // a payload beyond 8 KiB (the reader accepts up to 10 000 bytes): few distinct words, repeated
                _ => {
                    if p.rdh.data_format() != 0 { 820 + t.below(170) } else { 513 + t.below(107) }
                }
            };
            if nw > 60 {
                let base: Vec<Word> = (0..3).map(|_| gen_any_word(t)).collect();
                for k in 0..nw {
                    p.words.push(base[k % 3]);
                }
                labels.push("payload>8192".into());
            } else {
                for _ in 0..nw {
                    p.words.push(gen_any_word(t));
                }
            }
            p.frame_of_word = vec![usize::MAX; p.words.len()];
            if p.rdh.data_format() != 0 {
                p.pad = gen_pad(t);
                // layout must agree with the header's format: bytes 10..15 of a format-2 payload must
                // not all be zero (else the tool reads 16-byte slots)
                if p.words.len() >= 2 && p.words[1][0..6].iter().all(|b| *b == 0) {
                    p.words[1][0] = 1;
                }
                // a last word ending in 0xFF is indistinguishable from one more byte of padding: outside the format's
                // unambiguous domain
                if let Some(l) = p.words.last_mut() {
                    if l[9] == 0xFF {
                        l[9] = 0xFE;
                    }
                }
            }
        } else {
            let len = if o.near_max {
                8_300 + t.below(1_701)
            } else if o.mostly_large && t.chance(2, 3) {
                4_000 + t.below(6_001)
            } else {
                match t.weighted(&[3, 2, 6, 1, 1]) {
                0 => 0,
                1 => 1 + t.below(16),
                2 => t.below(400),
                3 => 9_999 + t.below(2),
                _ => t.below(o.max_payload + 1),
                }
            }
            .min(if o.near_max { 10_000 } else { o.max_payload });
            p.raw = Some(if len <= 32 { t.bytes(len) } else { t.bytes_cheap(len) });
        }
        p.fix_sizes();
        packets.push(p);
    }
    labels.push(
        match n {
            0..=2 => "n:<=2",
            3..=98 => "n:3-98",
            99..=101 => "n:99-101",
            102..=198 => "n:102-198",
            199..=201 => "n:199-201",
            _ => "n:>201",
        }
        .to_string(),
    );
    let link = Link {
        packets,
        barrel: Barrel::Inner,
        lane_ids: vec![],
    };
    (Stream::single(link), labels)
}

/// filter argument for a stream: present or absent value of a random kind
pub fn gen_filter(t: &mut Tape, file_rdhs: &[Rdh], allow_none: bool) -> Filter {
    let kind = if allow_none { t.below(4) } else { 1 + t.below(3) };
    if file_rdhs.is_empty() {
        return if kind == 0 { Filter::None } else { Filter::Link(t.u8()) };
    }
    let r = &file_rdhs[t.below(file_rdhs.len())];
    let absent = t.chance(1, 6);
    match kind {
        0 => Filter::None,
        1 => Filter::Link(if absent { t.u8() } else { r.link_id }),
        2 => Filter::Fee(if absent { t.u16() } else { r.fee_id }),
        _ => {
            if absent {
                Filter::Stave(t.below(7) as u8, t.below(48) as u8)
            } else {
                Filter::Stave(r.layer(), r.stave())
            }
        }
    }
}

// ------------------------------------------------------------------------------------------------
// G_mut: structure-aware corruption of a stream
// ------------------------------------------------------------------------------------------------

#[derive(Clone, Debug)]
pub struct MutOpts {
    /// keep each link's first packet's RDH0 and framing intact (C06 exclusions)
    pub protect_first: bool,
    /// keep offset/memory size consistent (well-framed)
    pub keep_framing: bool,
    /// keep payload layout in agreement with the header's format
    pub keep_layout: bool,
}

pub fn mutate_stream(t: &mut Tape, s: &mut Stream, o: &MutOpts, n_edits: usize, labels: &mut Vec<String>) {
    for _ in 0..n_edits {
        let li = t.below(s.links.len());
        let np = s.links[li].packets.len();
        if np == 0 {
            continue;
        }
        let pi = t.below(np);
        let first = pi == 0;
        let kind = t.weighted(&[6, 5, 3, 2, 2, 2, 2, 1]);
        let p = &mut s.links[li].packets[pi];
        match kind {
            0 => {
                // RDH field to boundary / random value
                labels.push("mut:rdh_field".into());
                let fld = t.below(if o.keep_framing { 16 } else { 18 });
                let r = &mut p.rdh;
                let protect0 = o.protect_first && first;
                match fld {
                    0 if !protect0 => r.version = *t.pick(&[6u8, 7, 0, 255, 8]),
                    1 if !protect0 => r.header_size = t.u8(),
                    2 if !protect0 => {
                        let rnd = t.u16();
                        r.fee_id = *t.pick(&[r.fee_id ^ 0x1000, r.fee_id | 0x7000, r.fee_id | 0x3F, r.fee_id | 0x8000, r.fee_id | 0x40, rnd])
                    }
                    3 if !protect0 => r.priority = 1,
                    4 if !protect0 => r.system_id = *t.pick(&[0x21u8, 0, 0x20, 255]),
                    5 if !protect0 => r.rdh0_reserved = 1 << t.below(16),
                    6 => r.bc_word = *t.pick(&[0xDEBu32, 0xDEC, 0xFFF, 0x1000, 0x8000_0000]),
                    7 => r.orbit = *t.pick(&[r.orbit.wrapping_add(1), r.orbit.wrapping_sub(1), 0, u32::MAX]),
                    8 if !o.keep_layout => r.format_word = *t.pick(&[0u64, 2, 3, 255, 1 << 8, 1 << 63]),
                    8 => r.format_word = (r.format_word & 0xFF) | *t.pick(&[0u64, 1 << 8, 1 << 63]),
                    9 => r.trigger_type = *t.pick(&[0u32, 1 << 15, 1 << 26, r.trigger_type ^ 0x10, r.trigger_type ^ 2, u32::MAX]),
                    10 => r.pages_counter = *t.pick(&[r.pages_counter.wrapping_add(1), r.pages_counter.wrapping_sub(1), 0, u16::MAX]),
                    11 => r.stop_bit = *t.pick(&[0u8, 1, 2, 255]),
                    12 => r.rdh2_reserved = 1 << t.below(8),
                    13 => r.detector_field = *t.pick(&[r.detector_field ^ 1, 1 << 12, 1 << 23, u32::MAX, 0xF]),
                    14 => r.rdh3_reserved = 1 << t.below(16),
                    15 => r.cruid_dw = *t.pick(&[0x2000u16, 0xF000, r.cruid_dw ^ 0x1000]),
                    16 if !protect0 => r.offset_next = *t.pick(&[0u16, 63, 64, r.offset_next.wrapping_add(16), 10_065, u16::MAX]),
                    17 if !protect0 => r.memory_size = *t.pick(&[0u16, 63, 64, r.memory_size.wrapping_add(16), u16::MAX]),
                    _ => r.link_id = r.link_id, // protected: no-op
                }
            }
            1 => {
                // word bit flips / id change
                if p.words.is_empty() {
                    continue;
                }
                labels.push("mut:word_bits".into());
                let wi = t.below(p.words.len());
                match t.below(4) {
                    0 => {
                        let bit = t.below(80);
                        p.words[wi][bit / 8] ^= 1 << (bit % 8);
                    }
                    1 => p.words[wi][9] = *t.pick(&[ID_IHW, ID_TDH, ID_TDT, ID_DDW0, ID_CDW, 0x20, 0x47, 0x00, 0xFF, 0x3F]),
                    2 => {
                        for _ in 0..3 {
                            let bit = t.below(72);
                            p.words[wi][bit / 8] ^= 1 << (bit % 8);
                        }
                    }
                    _ => p.words[wi] = gen_any_word(t),
                }
                if o.keep_layout && p.rdh.data_format() != 0 && wi == 1 && p.words[1][0..6].iter().all(|b| *b == 0) {
                    p.words[1][0] = 1;
                }
            }
            2 => {
                // delete a word
                if p.words.len() < 2 {
                    continue;
                }
                labels.push("mut:word_delete".into());
                let wi = t.below(p.words.len());
                p.words.remove(wi);
                p.frame_of_word.remove(wi);
                fix_layout(p, o);
                p.fix_sizes();
            }
            3 => {
                // duplicate / insert a word
                if p.words.is_empty() {
                    continue;
                }
                labels.push("mut:word_insert".into());
                let wi = t.below(p.words.len());
                let w = if t.chance(1, 2) { p.words[wi] } else { gen_any_word(t) };
                p.words.insert(wi, w);
                p.frame_of_word.insert(wi, usize::MAX);
                fix_layout(p, o);
                if p.words.len() * p.slot() + p.pad <= 10_000 {
                    p.fix_sizes();
                } else {
                    p.words.remove(wi);
                    p.frame_of_word.remove(wi);
                }
            }
            4 => {
                // swap two words
                if p.words.len() < 2 {
                    continue;
                }
                labels.push("mut:word_swap".into());
                let a = t.below(p.words.len());
                let b = t.below(p.words.len());
                p.words.swap(a, b);
                fix_layout(p, o);
            }
            5 => {
                // padding change (format 2)
                if p.rdh.data_format() == 0 {
                    continue;
                }
                labels.push("mut:padding".into());
                p.pad = *t.pick(&[0usize, 9, 10, 15, 16, 17, 40]);
                p.fix_sizes();
            }
            6 => {
                // delete / duplicate whole packet (never the first when protected)
                if np < 2 || (o.protect_first && first) {
                    continue;
                }
                labels.push("mut:packet_dup_del".into());
                let l = &mut s.links[li];
                if t.chance(1, 2) {
                    l.packets.remove(pi);
                    // remove the pi-th occurrence of li from order
                    remove_nth(&mut s.order, li, pi);
                } else {
                    let c = l.packets[pi].clone();
                    l.packets.insert(pi, c);
                    insert_nth(&mut s.order, li, pi);
                }
            }
            _ => {
                // splice: give this packet another link's identity (link id + fee)
                if s.links.len() < 2 || (o.protect_first && first) {
                    continue;
                }
                labels.push("mut:splice_identity".into());
                let other = (li + 1 + t.below(s.links.len() - 1)) % s.links.len();
                if s.links[other].packets.is_empty() {
                    continue;
                }
                let (lid, fee) = {
                    let r = &s.links[other].packets[0].rdh;
                    (r.link_id, r.fee_id)
                };
                let r = &mut s.links[li].packets[pi].rdh;
                if t.chance(1, 2) {
                    r.link_id = lid;
                } else {
                    r.fee_id = fee;
                }
            }
        }
    }
    if o.keep_layout {
        sanitize_layout(s);
    }
}

/// keep every format-2 payload unambiguous: bytes 10..15 not all zero (else read as 16-byte slots), last word not
/// ending in 0xFF (else its last byte reads as padding)
pub fn sanitize_layout(s: &mut Stream) {
    for l in s.links.iter_mut() {
        for p in l.packets.iter_mut() {
            if p.raw.is_none() && p.rdh.data_format() != 0 {
                if p.words.len() >= 2 && p.words[1][0..6].iter().all(|b| *b == 0) {
                    p.words[1][0] = 1;
                }
                if let Some(w) = p.words.last_mut() {
                    if w[9] == 0xFF {
                        w[9] = 0xFE;
                    }
                }
            }
        }
    }
}

fn fix_layout(p: &mut Packet, o: &MutOpts) {
    if o.keep_layout && p.rdh.data_format() != 0 && p.words.len() >= 2 && p.words[1][0..6].iter().all(|b| *b == 0) {
        p.words[1][0] = 1;
    }
}

fn remove_nth(order: &mut Vec<usize>, link: usize, nth: usize) {
    let mut c = 0;
    for i in 0..order.len() {
        if order[i] == link {
            if c == nth {
                order.remove(i);
                return;
            }
            c += 1;
        }
    }
}

fn insert_nth(order: &mut Vec<usize>, link: usize, nth: usize) {
    let mut c = 0;
    for i in 0..order.len() {
        if order[i] == link {
            if c == nth {
                order.insert(i, link);
                return;
            }
            c += 1;
        }
    }
    order.push(link);
}
