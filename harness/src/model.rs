//! Independent protocol model: RDH <-> 64 bytes, ITS 80-bit words, payload framing, streams with a
//! layout map, RDH-chain walker, filter predicates, reference sanity / running predicates.
//! Written from doc/checks_list.md, the FSM diagram and the field comments -- it never calls the
//! accessors under test.

use serde_json::{json, Value};

pub const RDH_SIZE: usize = 64;
pub const BC_MAX: u16 = 0xDEB; // 3564 bunch crossings per orbit

#[derive(Clone, Debug, PartialEq, Eq)]
pub struct Rdh {
    pub version: u8,
    pub header_size: u8,
    pub fee_id: u16,
    pub priority: u8,
    pub system_id: u8,
    pub rdh0_reserved: u16,
    pub offset_next: u16,
    pub memory_size: u16,
    pub link_id: u8,
    pub packet_counter: u8,
    pub cruid_dw: u16, // cru id [11:0], dw [15:12]
    pub bc_word: u32,  // bc [11:0], reserved [31:12]
    pub orbit: u32,
    pub format_word: u64, // data format [7:0], reserved [63:8]
    pub trigger_type: u32,
    pub pages_counter: u16,
    pub stop_bit: u8,
    pub rdh2_reserved: u8,
    pub reserved1: u64,
    pub detector_field: u32,
    pub par_bit: u16,
    pub rdh3_reserved: u16,
    pub reserved2: u64,
}

impl Default for Rdh {
    fn default() -> Self {
        Rdh {
            version: 7,
            header_size: 0x40,
            fee_id: 0,
            priority: 0,
            system_id: 0x20,
            rdh0_reserved: 0,
            offset_next: 64,
            memory_size: 64,
            link_id: 0,
            packet_counter: 0,
            cruid_dw: 0,
            bc_word: 0,
            orbit: 0,
            format_word: 2,
            trigger_type: 0x6A03,
            pages_counter: 0,
            stop_bit: 0,
            rdh2_reserved: 0,
            reserved1: 0,
            detector_field: 0,
            par_bit: 0,
            rdh3_reserved: 0,
            reserved2: 0,
        }
    }
}

impl Rdh {
    pub fn encode(&self) -> [u8; 64] {
        let mut b = [0u8; 64];
        b[0] = self.version;
        b[1] = self.header_size;
        b[2..4].copy_from_slice(&self.fee_id.to_le_bytes());
        b[4] = self.priority;
        b[5] = self.system_id;
        b[6..8].copy_from_slice(&self.rdh0_reserved.to_le_bytes());
        b[8..10].copy_from_slice(&self.offset_next.to_le_bytes());
        b[10..12].copy_from_slice(&self.memory_size.to_le_bytes());
        b[12] = self.link_id;
        b[13] = self.packet_counter;
        b[14..16].copy_from_slice(&self.cruid_dw.to_le_bytes());
        b[16..20].copy_from_slice(&self.bc_word.to_le_bytes());
        b[20..24].copy_from_slice(&self.orbit.to_le_bytes());
        b[24..32].copy_from_slice(&self.format_word.to_le_bytes());
        b[32..36].copy_from_slice(&self.trigger_type.to_le_bytes());
        b[36..38].copy_from_slice(&self.pages_counter.to_le_bytes());
        b[38] = self.stop_bit;
        b[39] = self.rdh2_reserved;
        b[40..48].copy_from_slice(&self.reserved1.to_le_bytes());
        b[48..52].copy_from_slice(&self.detector_field.to_le_bytes());
        b[52..54].copy_from_slice(&self.par_bit.to_le_bytes());
        b[54..56].copy_from_slice(&self.rdh3_reserved.to_le_bytes());
        b[56..64].copy_from_slice(&self.reserved2.to_le_bytes());
        b
    }
    pub fn decode(b: &[u8]) -> Rdh {
        let u16_ = |i: usize| u16::from_le_bytes([b[i], b[i + 1]]);
        let u32_ = |i: usize| u32::from_le_bytes([b[i], b[i + 1], b[i + 2], b[i + 3]]);
        let u64_ = |i: usize| {
            let mut x = [0u8; 8];
            x.copy_from_slice(&b[i..i + 8]);
            u64::from_le_bytes(x)
        };
        Rdh {
            version: b[0],
            header_size: b[1],
            fee_id: u16_(2),
            priority: b[4],
            system_id: b[5],
            rdh0_reserved: u16_(6),
            offset_next: u16_(8),
            memory_size: u16_(10),
            link_id: b[12],
            packet_counter: b[13],
            cruid_dw: u16_(14),
            bc_word: u32_(16),
            orbit: u32_(20),
            format_word: u64_(24),
            trigger_type: u32_(32),
            pages_counter: u16_(36),
            stop_bit: b[38],
            rdh2_reserved: b[39],
            reserved1: u64_(40),
            detector_field: u32_(48),
            par_bit: u16_(52),
            rdh3_reserved: u16_(54),
            reserved2: u64_(56),
        }
    }
    pub fn bc(&self) -> u16 {
        (self.bc_word & 0xFFF) as u16
    }
    pub fn data_format(&self) -> u8 {
        (self.format_word & 0xFF) as u8
    }
    pub fn dw(&self) -> u8 {
        (self.cruid_dw >> 12) as u8
    }
    pub fn cru_id(&self) -> u16 {
        self.cruid_dw & 0xFFF
    }
    pub fn layer(&self) -> u8 {
        ((self.fee_id >> 12) & 7) as u8
    }
    pub fn stave(&self) -> u8 {
        (self.fee_id & 0x3F) as u8
    }
    pub fn set_sizes(&mut self, payload_len: usize) {
        self.offset_next = (64 + payload_len) as u16;
        self.memory_size = (64 + payload_len) as u16;
    }
    /// the row printed by `view rdh -d` and in RDH error context, as whitespace separated tokens
    pub fn view_tokens(&self) -> Vec<String> {
        vec![
            self.version.to_string(),
            self.header_size.to_string(),
            self.fee_id.to_string(),
            self.system_id.to_string(),
            self.offset_next.to_string(),
            self.link_id.to_string(),
            self.packet_counter.to_string(),
            self.bc().to_string(),
            format!("{:#x}", self.orbit),
            self.data_format().to_string(),
            format!("{:#x}", self.trigger_type),
            self.pages_counter.to_string(),
            self.stop_bit.to_string(),
            format!("{:#x}", self.detector_field),
        ]
    }
    pub fn summary(&self) -> Value {
        json!({"v": self.version, "fee": self.fee_id, "link": self.link_id, "sys": self.system_id, "off": self.offset_next,
               "mem": self.memory_size, "bc": self.bc(), "orbit": self.orbit, "fmt": self.data_format(),
               "trg": format!("{:#x}", self.trigger_type), "page": self.pages_counter, "stop": self.stop_bit,
               "det": format!("{:#x}", self.detector_field)})
    }
}

pub fn fee_id(layer: u8, fiber: u8, stave: u8) -> u16 {
    ((layer as u16 & 7) << 12) | ((fiber as u16 & 3) << 8) | (stave as u16 & 0x3F)
}

/// number of staves per ITS layer
pub const STAVES_PER_LAYER: [u8; 7] = [12, 16, 20, 24, 30, 42, 48];

pub const KNOWN_SYSTEM_IDS: [u8; 20] = [
    3, 4, 5, 6, 7, 8, 10, 15, 17, 18, 19, 32, 33, 34, 35, 36, 37, 38, 39, 255,
];

// ------------------------------------------------------------------------------------------------
// ITS words
// ------------------------------------------------------------------------------------------------

pub type Word = [u8; 10];

pub const ID_IHW: u8 = 0xE0;
pub const ID_TDH: u8 = 0xE8;
pub const ID_TDT: u8 = 0xF0;
pub const ID_DDW0: u8 = 0xE4;
pub const ID_CDW: u8 = 0xF8;

pub fn ihw(active_lanes: u32) -> Word {
    let mut w = [0u8; 10];
    w[0..4].copy_from_slice(&(active_lanes & 0x0FFF_FFFF).to_le_bytes());
    w[9] = ID_IHW;
    w
}

#[derive(Clone, Copy, Debug, PartialEq, Eq)]
pub struct TdhF {
    pub trigger_type: u16, // 12 bit
    pub internal: bool,
    pub no_data: bool,
    pub continuation: bool,
    pub bc: u16,
    pub orbit: u32,
}

pub fn tdh(f: &TdhF) -> Word {
    let mut w = [0u8; 10];
    let w0: u16 = (f.trigger_type & 0xFFF)
        | ((f.internal as u16) << 12)
        | ((f.no_data as u16) << 13)
        | ((f.continuation as u16) << 14);
    w[0..2].copy_from_slice(&w0.to_le_bytes());
    w[2..4].copy_from_slice(&(f.bc & 0xFFF).to_le_bytes());
    w[4..8].copy_from_slice(&f.orbit.to_le_bytes());
    w[9] = ID_TDH;
    w
}

pub fn tdh_fields(w: &[u8]) -> TdhF {
    let w0 = u16::from_le_bytes([w[0], w[1]]);
    TdhF {
        trigger_type: w0 & 0xFFF,
        internal: w0 & 0x1000 != 0,
        no_data: w0 & 0x2000 != 0,
        continuation: w0 & 0x4000 != 0,
        bc: u16::from_le_bytes([w[2], w[3]]) & 0xFFF,
        orbit: u32::from_le_bytes([w[4], w[5], w[6], w[7]]),
    }
}

/// lane_status: 56 bits; flags3: timeout_to_start(4) | timeout_start_stop(2) | timeout_in_idle(1)
pub fn tdt(lane_status: u64, timeouts: u8, packet_done: bool, transmission_timeout: bool, lane_starts_violation: bool) -> Word {
    let mut w = [0u8; 10];
    w[0..7].copy_from_slice(&(lane_status & 0x00FF_FFFF_FFFF_FFFF).to_le_bytes()[0..7]);
    w[7] = (timeouts & 7) << 5;
    w[8] = (packet_done as u8) | ((transmission_timeout as u8) << 1) | ((lane_starts_violation as u8) << 3);
    w[9] = ID_TDT;
    w
}

pub fn ddw0(lane_status: u64, transmission_timeout: bool, lane_starts_violation: bool, index: u8) -> Word {
    let mut w = [0u8; 10];
    w[0..7].copy_from_slice(&(lane_status & 0x00FF_FFFF_FFFF_FFFF).to_le_bytes()[0..7]);
    w[8] = ((transmission_timeout as u8) << 1) | ((lane_starts_violation as u8) << 3) | ((index & 0xF) << 4);
    w[9] = ID_DDW0;
    w
}

pub fn cdw(user_field: u64, index: u32) -> Word {
    let mut w = [0u8; 10];
    w[0..6].copy_from_slice(&(user_field & 0xFFFF_FFFF_FFFF).to_le_bytes()[0..6]);
    w[6] = (index & 0xFF) as u8;
    w[7] = ((index >> 8) & 0xFF) as u8;
    w[8] = ((index >> 16) & 0xFF) as u8;
    w[9] = ID_CDW;
    w
}

pub fn data_word(id: u8, nine: &[u8]) -> Word {
    let mut w = [0u8; 10];
    w[0..9].copy_from_slice(&nine[0..9]);
    w[9] = id;
    w
}

/// valid data word identifiers (IL 20..28; OB 40..46, 48..4E, 50..56, 58..5E)
pub fn is_data_id(id: u8) -> bool {
    matches!(id, 0x20..=0x28 | 0x40..=0x46 | 0x48..=0x4E | 0x50..=0x56 | 0x58..=0x5E)
}

/// lane number of a *valid* data id
pub fn lane_of_id(id: u8) -> u8 {
    if id >> 5 == 1 {
        id & 0x1F
    } else {
        7 * ((id >> 3) & 3) + (id & 7)
    }
}

pub const ML_IDS: [u8; 16] = [
    0x43, 0x44, 0x45, 0x46, 0x48, 0x49, 0x4A, 0x4B, 0x53, 0x54, 0x55, 0x56, 0x58, 0x59, 0x5A, 0x5B,
];
pub const OL_IDS: [u8; 28] = [
    0x40, 0x41, 0x42, 0x43, 0x44, 0x45, 0x46, 0x48, 0x49, 0x4A, 0x4B, 0x4C, 0x4D, 0x4E, 0x50, 0x51, 0x52, 0x53, 0x54,
    0x55, 0x56, 0x58, 0x59, 0x5A, 0x5B, 0x5C, 0x5D, 0x5E,
];

#[derive(Clone, Copy, Debug, PartialEq, Eq)]
pub enum Barrel {
    Inner,
    Middle,
    Outer,
}

impl Barrel {
    pub fn of_layer(layer: u8) -> Barrel {
        match layer {
            0..=2 => Barrel::Inner,
            3 | 4 => Barrel::Middle,
            _ => Barrel::Outer,
        }
    }
    pub fn lanes(&self) -> usize {
        match self {
            Barrel::Inner => 3,
            Barrel::Middle => 8,
            Barrel::Outer => 14,
        }
    }
    pub fn name(&self) -> &'static str {
        match self {
            Barrel::Inner => "IB",
            Barrel::Middle => "ML",
            Barrel::Outer => "OL",
        }
    }
}

#[derive(Clone, Copy, Debug, PartialEq, Eq)]
pub enum WordKind {
    Ihw,
    Tdh,
    Tdt,
    Ddw0,
    Cdw,
    Data,
    Other,
}

pub fn kind_of_id(id: u8) -> WordKind {
    match id {
        ID_IHW => WordKind::Ihw,
        ID_TDH => WordKind::Tdh,
        ID_TDT => WordKind::Tdt,
        ID_DDW0 => WordKind::Ddw0,
        ID_CDW => WordKind::Cdw,
        x if is_data_id(x) => WordKind::Data,
        _ => WordKind::Other,
    }
}

// ------------------------------------------------------------------------------------------------
// Packets, links, streams, layout
// ------------------------------------------------------------------------------------------------

#[derive(Clone, Debug)]
pub struct Packet {
    pub rdh: Rdh,
    /// payload as words (when `raw` is None)
    pub words: Vec<Word>,
    /// number of trailing 0xFF bytes (format 2)
    pub pad: usize,
    /// raw payload override (G_frame with arbitrary bytes)
    pub raw: Option<Vec<u8>>,
    /// frame index (within link) each word belongs to, for stave-level oracles; usize::MAX = none
    pub frame_of_word: Vec<usize>,
}

impl Packet {
    pub fn new(rdh: Rdh) -> Self {
        Packet {
            rdh,
            words: vec![],
            pad: 0,
            raw: None,
            frame_of_word: vec![],
        }
    }
    pub fn slot(&self) -> usize {
        if self.rdh.data_format() == 0 {
            16
        } else {
            10
        }
    }
    pub fn payload(&self) -> Vec<u8> {
        if let Some(r) = &self.raw {
            return r.clone();
        }
        let mut v = Vec::with_capacity(self.words.len() * self.slot() + self.pad);
        for w in &self.words {
            v.extend_from_slice(w);
            if self.slot() == 16 {
                v.extend_from_slice(&[0u8; 6]);
            }
        }
        v.extend(std::iter::repeat(0xFF).take(self.pad));
        v
    }
    /// make offset_to_next == memory_size == 64 + payload
    pub fn fix_sizes(&mut self) {
        let n = self.payload().len();
        self.rdh.set_sizes(n);
    }
    pub fn encode(&self) -> Vec<u8> {
        let mut v = self.rdh.encode().to_vec();
        v.extend(self.payload());
        v
    }
}

#[derive(Clone, Debug)]
pub struct Link {
    pub packets: Vec<Packet>,
    pub barrel: Barrel,
    pub lane_ids: Vec<u8>,
}

#[derive(Clone, Debug)]
pub struct Stream {
    pub links: Vec<Link>,
    /// link index of each packet in file order (each link's own order preserved)
    pub order: Vec<usize>,
}

#[derive(Clone, Debug)]
pub struct PacketAt {
    pub offset: u64,
    pub link: usize,
    pub idx_in_link: usize,
    pub len: usize,
}

#[derive(Clone, Debug, Default)]
pub struct Layout {
    pub packets: Vec<PacketAt>,
    pub total: u64,
}

impl Stream {
    pub fn single(link: Link) -> Stream {
        let n = link.packets.len();
        Stream {
            links: vec![link],
            order: vec![0; n],
        }
    }
    pub fn n_packets(&self) -> usize {
        self.order.len()
    }
    pub fn encode(&self) -> (Vec<u8>, Layout) {
        let mut out = Vec::new();
        let mut lay = Layout::default();
        let mut next = vec![0usize; self.links.len()];
        for &l in &self.order {
            let p = &self.links[l].packets[next[l]];
            let enc = p.encode();
            lay.packets.push(PacketAt {
                offset: out.len() as u64,
                link: l,
                idx_in_link: next[l],
                len: enc.len(),
            });
            out.extend(enc);
            next[l] += 1;
        }
        lay.total = out.len() as u64;
        (out, lay)
    }
    pub fn packet(&self, lay: &Layout, i: usize) -> &Packet {
        let pa = &lay.packets[i];
        &self.links[pa.link].packets[pa.idx_in_link]
    }
    /// file offset of word `w` of global packet `i`
    pub fn word_offset(&self, lay: &Layout, i: usize, w: usize) -> u64 {
        let p = self.packet(lay, i);
        lay.packets[i].offset + 64 + (w * p.slot()) as u64
    }
    /// global packet index of (link, idx_in_link)
    pub fn global_index(&self, lay: &Layout, link: usize, idx: usize) -> usize {
        lay.packets
            .iter()
            .position(|p| p.link == link && p.idx_in_link == idx)
            .expect("packet not in layout")
    }
}

/// interleavings of link packet sequences
pub fn order_contiguous(lens: &[usize]) -> Vec<usize> {
    let mut o = vec![];
    for (l, n) in lens.iter().enumerate() {
        o.extend(std::iter::repeat(l).take(*n));
    }
    o
}

pub fn order_round_robin(lens: &[usize]) -> Vec<usize> {
    let mut o = vec![];
    let mut left: Vec<usize> = lens.to_vec();
    loop {
        let mut any = false;
        for (l, n) in left.iter_mut().enumerate() {
            if *n > 0 {
                o.push(l);
                *n -= 1;
                any = true;
            }
        }
        if !any {
            break;
        }
    }
    o
}

pub fn order_random(lens: &[usize], t: &mut crate::tape::Tape) -> Vec<usize> {
    let mut o = vec![];
    let mut left: Vec<usize> = lens.to_vec();
    let mut total: usize = left.iter().sum();
    while total > 0 {
        // pick a link weighted by remaining packets
        let mut x = t.below(total);
        for (l, n) in left.iter_mut().enumerate() {
            if x < *n {
                o.push(l);
                *n -= 1;
                break;
            }
            x -= *n;
        }
        total -= 1;
    }
    o
}

// ------------------------------------------------------------------------------------------------
// RDH chain walker + filters (reference for C03/C08/C14)
// ------------------------------------------------------------------------------------------------

#[derive(Clone, Debug)]
pub struct Walked {
    pub offset: u64,
    pub rdh: Rdh,
    /// payload bytes range in the file (may be clipped by EOF)
    pub payload_start: usize,
    pub payload_end: usize,
    pub complete: bool,
}

/// Follows o_{i+1} = o_i + offset_to_next while a full RDH fits and the offset is in the accepted
/// range (64..=10064).  Stops at the first RDH that does not fit or has an unacceptable offset.
pub fn walk(file: &[u8]) -> (Vec<Walked>, WalkEnd) {
    let mut v = vec![];
    let mut o = 0usize;
    loop {
        if o == file.len() {
            return (v, WalkEnd::CleanEof);
        }
        if o + 64 > file.len() {
            return (v, WalkEnd::PartialRdh(o as u64));
        }
        let rdh = Rdh::decode(&file[o..o + 64]);
        let off = rdh.offset_next as i64 - 64;
        if !(0..=10_000).contains(&off) {
            return (v, WalkEnd::BadOffset(o as u64));
        }
        let pl_start = o + 64;
        let pl_len = (rdh.memory_size as usize).wrapping_sub(64) & 0xFFFF;
        let pl_end = (pl_start + pl_len).min(file.len());
        let complete = pl_start + pl_len <= file.len() && o + rdh.offset_next as usize <= file.len();
        let next = o + rdh.offset_next as usize;
        v.push(Walked {
            offset: o as u64,
            rdh,
            payload_start: pl_start,
            payload_end: pl_end,
            complete,
        });
        if next > file.len() {
            return (v, WalkEnd::PartialPayload(o as u64));
        }
        o = next;
    }
}

#[derive(Clone, Debug, PartialEq, Eq)]
pub enum WalkEnd {
    CleanEof,
    PartialRdh(u64),
    PartialPayload(u64),
    BadOffset(u64),
}

#[derive(Clone, Copy, Debug, PartialEq, Eq)]
pub enum Filter {
    None,
    Link(u8),
    Fee(u16),
    Stave(u8, u8),
}

impl Filter {
    pub fn matches(&self, r: &Rdh) -> bool {
        match self {
            Filter::None => true,
            Filter::Link(l) => r.link_id == *l,
            Filter::Fee(f) => r.fee_id == *f,
            Filter::Stave(l, s) => {
                let m = 0x703F;
                (r.fee_id & m) == (fee_id(*l, 0, *s) & m)
            }
        }
    }
    pub fn args(&self) -> Vec<String> {
        match self {
            Filter::None => vec![],
            Filter::Link(l) => vec!["-f".into(), l.to_string()],
            Filter::Fee(f) => vec!["-F".into(), f.to_string()],
            Filter::Stave(l, s) => vec!["-s".into(), format!("L{l}_{s}")],
        }
    }
    pub fn label(&self) -> &'static str {
        match self {
            Filter::None => "filter:none",
            Filter::Link(_) => "filter:link",
            Filter::Fee(_) => "filter:fee",
            Filter::Stave(..) => "filter:stave",
        }
    }
}

// ------------------------------------------------------------------------------------------------
// Reference RDH sanity predicate (A.2) and running automaton (A.3)
// ------------------------------------------------------------------------------------------------

/// true  <=>  the RDH violates at least one documented sanity condition
pub fn ref_rdh_sanity_fails(b: &[u8], expected_version: u8, its_target: bool) -> bool {
    let fee = u16::from_le_bytes([b[2], b[3]]);
    let bcw = u32::from_le_bytes([b[16], b[17], b[18], b[19]]);
    let trg = u32::from_le_bytes([b[32], b[33], b[34], b[35]]);
    let det = u32::from_le_bytes([b[48], b[49], b[50], b[51]]);
    b[0] != expected_version
        || b[1] != 0x40
        || fee & 0x8CC0 != 0
        || ((fee >> 12) & 7) > 6
        || (fee & 0x3F) > 47
        || b[4] != 0
        || (its_target && b[5] != 0x20)
        || b[6] != 0
        || b[7] != 0
        || (bcw & 0xFFF) > 0xDEB
        || (bcw >> 12) != 0
        || b[38] > 1
        || trg == 0
        || trg & 0x07FF_8000 != 0
        || b[39] != 0
        || det & 0x00FF_F000 != 0
        || b[54] != 0
        || b[55] != 0
        || (b[15] >> 4) > 1
        || b[24] > 2
}

#[derive(Clone, Copy, Debug, PartialEq, Eq)]
pub enum Verdict {
    Required,
    Forbidden,
    Free,
}

/// Documented running automaton over a link's RDH history.  `expected` is a *set* of admissible
/// expected page counters (it becomes larger than one element only after an RDH whose stop bit is
/// neither 0 nor 1, where the document does not say what follows).
#[derive(Clone, Debug)]
pub struct RefRunning {
    expected: Vec<u32>,
    increment: u32,
    n_seen: usize,
    prev: Option<Rdh>,
}

impl Default for RefRunning {
    fn default() -> Self {
        Self::new()
    }
}

impl RefRunning {
    pub fn new() -> Self {
        RefRunning {
            expected: vec![0],
            increment: 1,
            n_seen: 0,
            prev: None,
        }
    }
    /// verdict for this RDH: is an E11 required / forbidden / unspecified
    pub fn step(&mut self, r: &Rdh) -> Verdict {
        self.step_reasons(r).overall()
    }

    /// per-reason verdicts (the E11 message lists its reasons, each one is a documented rule of its own)
    pub fn step_reasons(&mut self, r: &Rdh) -> RunningReasons {
        // the page increment is learnt from the second RDH of the link (sequences in the domain
        // start with pages 0,1 so it is 1; kept general to mirror the documented "increment")
        if self.n_seen == 1 {
            self.increment = r.pages_counter as u32;
        }
        self.n_seen += 1;
        let mut out = RunningReasons::default();
        let page = r.pages_counter as u32;
        match r.stop_bit {
            0 | 1 => {
                let ok_for: Vec<bool> = self.expected.iter().map(|e| (*e & 0xFFFF) == page).collect();
                out.page = if ok_for.iter().all(|x| !*x) {
                    Verdict::Required
                } else if !ok_for.iter().all(|x| *x) {
                    Verdict::Free
                } else {
                    Verdict::Forbidden
                };
                if r.stop_bit == 0 {
                    let inc = self.increment;
                    for e in self.expected.iter_mut() {
                        *e = (*e + inc) & 0xFFFF;
                    }
                } else {
                    self.expected = vec![0];
                }
            }
            _ => {
                out.stop_bit = Verdict::Required;
                // what is expected next is unspecified: keep, incremented, or reset
                let mut n = vec![];
                for e in &self.expected {
                    n.push(*e);
                    n.push((*e + self.increment) & 0xFFFF);
                }
                n.push(0);
                n.sort_unstable();
                n.dedup();
                self.expected = n;
            }
        }
        if let Some(p) = &self.prev {
            // only a stop bit of exactly 1 closes an HBF and demands a new orbit
            if p.stop_bit == 1 && p.orbit == r.orbit {
                out.orbit_same = Verdict::Required;
            }
            if r.pages_counter != 0 {
                if p.orbit != r.orbit {
                    out.orbit_changed = Verdict::Required;
                }
                if p.trigger_type != r.trigger_type {
                    out.trigger_changed = Verdict::Required;
                }
                if p.fee_id != r.fee_id {
                    out.fee_changed = Verdict::Required;
                }
            }
        }
        self.prev = Some(r.clone());
        out
    }
}

/// one verdict per documented running rule; the markers are the phrases of the E11 message
#[derive(Clone, Copy, Debug, PartialEq, Eq)]
pub struct RunningReasons {
    pub page: Verdict,
    pub stop_bit: Verdict,
    pub orbit_same: Verdict,
    pub orbit_changed: Verdict,
    pub trigger_changed: Verdict,
    pub fee_changed: Verdict,
}

impl Default for RunningReasons {
    fn default() -> Self {
        RunningReasons { page: Verdict::Forbidden, stop_bit: Verdict::Forbidden, orbit_same: Verdict::Forbidden, orbit_changed: Verdict::Forbidden, trigger_changed: Verdict::Forbidden, fee_changed: Verdict::Forbidden }
    }
}

impl RunningReasons {
    pub fn list(&self) -> [(&'static str, &'static str, Verdict); 6] {
        [
            ("page-counter", "pages_counter = ", self.page),
            ("stop-bit", "stop_bit = ", self.stop_bit),
            ("orbit-same-after-stop", "Orbit same as previous", self.orbit_same),
            ("orbit-changed-in-hbf", "Orbit changed from", self.orbit_changed),
            ("trigger-changed-in-hbf", "Trigger type changed from", self.trigger_changed),
            ("fee-changed-in-hbf", "FeeId changed from", self.fee_changed),
        ]
    }
    pub fn overall(&self) -> Verdict {
        let l = self.list();
        if l.iter().any(|x| x.2 == Verdict::Required) {
            Verdict::Required
        } else if l.iter().any(|x| x.2 == Verdict::Free) {
            Verdict::Free
        } else {
            Verdict::Forbidden
        }
    }
    /// compare with the text of an E11 message ("" = no message); returns the first disagreeing rule
    pub fn disagrees(&self, e11_text: &str) -> Option<(&'static str, bool)> {
        for (name, marker, v) in self.list() {
            let got = e11_text.contains(marker);
            match v {
                Verdict::Required if !got => return Some((name, false)),
                Verdict::Forbidden if got => return Some((name, true)),
                _ => {}
            }
        }
        None
    }
}

// ------------------------------------------------------------------------------------------------
// Reference payload chunker (C12) and word sanity predicates (C11)
// ------------------------------------------------------------------------------------------------

/// Result of cutting a payload as the data format prescribes.
#[derive(Debug, Clone, PartialEq, Eq)]
pub enum Chunked {
    /// words (start offset inside payload, bytes)
    Words(Vec<(usize, Word)>),
    /// more than 15 trailing 0xFF
    OverPadded(usize),
}

pub fn trailing_ff(payload: &[u8]) -> usize {
    payload.iter().rev().take_while(|b| **b == 0xFF).count()
}

/// `fmt0` = payload layout is 16-byte slots.
pub fn ref_chunk(payload: &[u8], fmt0: bool) -> Chunked {
    let ff = trailing_ff(payload);
    if ff > 15 {
        return Chunked::OverPadded(ff);
    }
    let mut v = vec![];
    if fmt0 {
        let mut o = 0;
        while o + 16 <= payload.len() {
            let mut w = [0u8; 10];
            w.copy_from_slice(&payload[o..o + 10]);
            v.push((o, w));
            o += 16;
        }
    } else {
        let body = payload.len() - ff;
        // padding is never a word; whole words only
        let usable = if ff > 9 { body } else { payload.len() };
        let mut o = 0;
        while o + 10 <= usable {
            let mut w = [0u8; 10];
            w.copy_from_slice(&payload[o..o + 10]);
            v.push((o, w));
            o += 10;
        }
    }
    Chunked::Words(v)
}

/// the layout the tool will *detect* (bytes 10..15 all zero => 16 byte slots)
pub fn detected_fmt0(payload: &[u8]) -> bool {
    payload.len() >= 16 && payload[10..16].iter().all(|b| *b == 0)
}

pub fn ref_ihw_fails(w: &[u8]) -> bool {
    // id E0, bits 71:28 zero
    w[9] != ID_IHW || (w[3] & 0xF0) != 0 || w[4..9].iter().any(|b| *b != 0)
}

pub fn ref_tdh_fails(w: &[u8]) -> bool {
    if w[9] != ID_TDH {
        return true;
    }
    let w0 = u16::from_le_bytes([w[0], w[1]]);
    let reserved = (w0 & 0x8000) != 0 || (w[3] & 0xF0) != 0 || w[8] != 0;
    let tt = w0 & 0xFFF;
    let internal = w0 & 0x1000 != 0;
    reserved || (tt == 0 && !internal)
}

pub fn ref_tdt_fails(w: &[u8]) -> bool {
    // id F0; reserved: 60:56 (w[7] low 5 bits), 66 (w[8] bit 2), 71:68 (w[8] high nibble)
    w[9] != ID_TDT || (w[7] & 0x1F) != 0 || (w[8] & 0x04) != 0 || (w[8] & 0xF0) != 0
}

pub fn ref_ddw0_fails(w: &[u8]) -> bool {
    // id E4; reserved: 63:56 (w[7]), 64 and 66 (w[8] bits 0,2); index 71:68 must be 0
    w[9] != ID_DDW0 || w[7] != 0 || (w[8] & 0x05) != 0 || (w[8] & 0xF0) != 0
}

/// a data word is reported <=> id invalid, or lane not active, or OB input > 6 (running checks)
pub fn ref_data_word_reported(id: u8, active_lanes: u32, running: bool) -> bool {
    if !is_data_id(id) {
        return true;
    }
    if !running {
        return false;
    }
    let lane = lane_of_id(id);
    let inactive = active_lanes & (1u32 << lane) == 0;
    let input_gt6 = id >> 5 == 2 && (id & 7) > 6;
    inactive || input_gt6
}

// ------------------------------------------------------------------------------------------------
// misc
// ------------------------------------------------------------------------------------------------

pub fn word_hex(w: &[u8]) -> String {
    w.iter().map(|b| format!("{b:02X}")).collect::<Vec<_>>().join(" ")
}
