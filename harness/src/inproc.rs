//! In-process driver over fastPASTA's public library API.

use alice_protocol_reader::prelude::*;
use fastpasta::analyze::validators::link_validator::LinkValidator;
use fastpasta::config::check::{CheckCommands, CheckModeArgs, System};
use fastpasta::config::test_util::MockConfig;
use fastpasta::stats::StatType;
use std::sync::OnceLock;

#[derive(Clone, Copy, Debug, PartialEq, Eq, Hash)]
pub enum Mode {
    Sanity,
    All,
    SanityIts,
    AllIts,
    AllItsStave,
}

pub const ALL_MODES: [Mode; 5] = [Mode::Sanity, Mode::All, Mode::SanityIts, Mode::AllIts, Mode::AllItsStave];

impl Mode {
    pub fn args(&self) -> Vec<String> {
        let v: &[&str] = match self {
            Mode::Sanity => &["check", "sanity"],
            Mode::All => &["check", "all"],
            Mode::SanityIts => &["check", "sanity", "its"],
            Mode::AllIts => &["check", "all", "its"],
            Mode::AllItsStave => &["check", "all", "its-stave"],
        };
        v.iter().map(|s| s.to_string()).collect()
    }
    pub fn name(&self) -> &'static str {
        match self {
            Mode::Sanity => "check sanity",
            Mode::All => "check all",
            Mode::SanityIts => "check sanity its",
            Mode::AllIts => "check all its",
            Mode::AllItsStave => "check all its-stave",
        }
    }
    pub fn its(&self) -> bool {
        !matches!(self, Mode::Sanity | Mode::All)
    }
    pub fn running(&self) -> bool {
        matches!(self, Mode::All | Mode::AllIts | Mode::AllItsStave)
    }
    pub fn stave(&self) -> bool {
        matches!(self, Mode::AllItsStave)
    }
    pub fn idx(&self) -> usize {
        ALL_MODES.iter().position(|m| m == self).unwrap()
    }
}

/// must be called once before any in-process use (several library functions read `Cfg::global()`)
pub fn init_global_config() {
    static ONCE: OnceLock<()> = OnceLock::new();
    ONCE.get_or_init(|| {
        use clap::Parser;
        let cfg = fastpasta::config::Cfg::parse_from(["fastpasta", "check", "all", "its-stave"]);
        let _ = fastpasta::config::CONFIG.set(cfg);
    });
}

fn mk_cfg(mode: Mode, mute: bool) -> &'static MockConfig {
    let mut c = MockConfig::new();
    let target = match mode {
        Mode::Sanity | Mode::All => None,
        Mode::SanityIts | Mode::AllIts => Some(System::ITS),
        Mode::AllItsStave => Some(System::ITS_Stave),
    };
    let args = CheckModeArgs {
        target,
        ..Default::default()
    };
    c.check = Some(if mode.running() {
        CheckCommands::All(args)
    } else {
        CheckCommands::Sanity(args)
    });
    c.mute_errors = mute;
    Box::leak(Box::new(c))
}

pub fn mock_cfg(mode: Mode, mute: bool) -> &'static MockConfig {
    static CFGS: OnceLock<Vec<&'static MockConfig>> = OnceLock::new();
    let v = CFGS.get_or_init(|| {
        let mut v = vec![];
        for m in ALL_MODES {
            v.push(mk_cfg(m, false));
            v.push(mk_cfg(m, true));
        }
        v
    });
    v[mode.idx() * 2 + mute as usize]
}

pub fn leak_cfg(c: MockConfig) -> &'static MockConfig {
    Box::leak(Box::new(c))
}

pub fn load_rdh(bytes: &[u8]) -> RdhCru {
    let mut s: &[u8] = bytes;
    RdhCru::load(&mut s).expect("64 bytes")
}

#[derive(Debug, Default, Clone)]
pub struct PassResult {
    pub errors: Vec<String>,
    pub fatal: Vec<String>,
    pub other: usize,
    pub alpide: Vec<fastpasta::stats::stats_collector::its_stats::alpide_stats::AlpideStats>,
}

/// One sequential pass of one link's packets through one LinkValidator.
/// Each packet: (rdh bytes, payload, offset in file).
pub fn link_pass(cfg: &'static MockConfig, packets: &[(Vec<u8>, Vec<u8>, u64)]) -> PassResult {
    init_global_config();
    let (stat_tx, stat_rx) = flume::unbounded::<StatType>();
    let (mut lv, data_tx) = LinkValidator::<RdhCru, MockConfig>::new(cfg, stat_tx);
    for (r, p, o) in packets {
        data_tx.send((load_rdh(r), p.clone(), *o)).unwrap();
    }
    drop(data_tx);
    lv.run();
    drop(lv);
    let mut res = PassResult::default();
    while let Ok(s) = stat_rx.try_recv() {
        match s {
            StatType::Error(e) => res.errors.push(e.to_string()),
            StatType::Fatal(e) => res.fatal.push(e.to_string()),
            StatType::AlpideStats(a) => res.alpide.push(a),
            _ => res.other += 1,
        }
    }
    res
}

/// run a closure catching panics; returns Err(panic message)
pub fn catch<T>(f: impl FnOnce() -> T + std::panic::UnwindSafe) -> Result<T, String> {
    std::panic::catch_unwind(f).map_err(|e| {
        if let Some(s) = e.downcast_ref::<&str>() {
            s.to_string()
        } else if let Some(s) = e.downcast_ref::<String>() {
            s.clone()
        } else {
            "panic".to_string()
        }
    })
}

pub fn silence_panics() {
    std::panic::set_hook(Box::new(|_| {}));
}
