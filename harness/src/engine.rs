//! Generic driver: phases (generated / enumerated), proptest runners on worker threads,
//! shrinking, replay files, evidence, known findings.

use crate::tape::{fnv_str, mix, Tape};
use proptest::prelude::*;
use proptest::test_runner::{Config, RngSeed, TestCaseError, TestError, TestRunner};
use serde_json::{json, Value};
use std::collections::{BTreeMap, HashSet};
use std::path::{Path, PathBuf};
use std::sync::atomic::{AtomicBool, AtomicU64, Ordering};
use std::sync::Mutex;
use std::time::Instant;

pub fn verif_root() -> PathBuf {
    PathBuf::from(std::env::var("FPV_ROOT").unwrap_or_else(|_| "/verif".into()))
}

#[derive(Clone, Copy, PartialEq, Eq, Debug)]
pub enum Tier {
    Quick,
    Thorough,
}

impl Tier {
    pub fn name(&self) -> &'static str {
        match self {
            Tier::Quick => "quick",
            Tier::Thorough => "thorough",
        }
    }
    pub fn pick<T>(&self, q: T, t: T) -> T {
        match self {
            Tier::Quick => q,
            Tier::Thorough => t,
        }
    }
}

/// What a passing case reports back.
#[derive(Default, Debug)]
pub struct CaseOut {
    pub labels: Vec<String>,
    pub nontrivial: bool,
    pub fingerprint: u64,
    pub execs: u64,
    pub sample: Option<Value>,
    /// counted exclusions (generator avoided something by construction)
    pub excluded: Vec<String>,
}

impl CaseOut {
    pub fn label(&mut self, s: impl Into<String>) {
        self.labels.push(s.into());
    }
}

/// A property violation found in one case.
#[derive(Debug, Clone)]
pub struct Fail {
    /// specific signature used for known-finding matching
    pub signature: String,
    pub message: String,
    pub detail: Value,
}

impl Fail {
    pub fn new(signature: impl Into<String>, message: impl Into<String>, detail: Value) -> Self {
        Self {
            signature: signature.into(),
            message: message.into(),
            detail,
        }
    }
}

pub type CaseResult = Result<CaseOut, Fail>;

/// Per-thread context handed to case functions.
pub struct Worker {
    pub idx: usize,
    pub scratch: PathBuf,
    pub cli: PathBuf,
    pub tier: Tier,
    pub strict: bool, // replay mode: known findings are not tolerated silently
    counter: AtomicU64,
    samples_left: AtomicU64,
}

impl Worker {
    pub fn new(idx: usize, scratch: PathBuf, cli: PathBuf, tier: Tier, strict: bool) -> Self {
        std::fs::create_dir_all(&scratch).ok();
        Self {
            idx,
            scratch,
            cli,
            tier,
            strict,
            counter: AtomicU64::new(0),
            samples_left: AtomicU64::new(if idx < 3 { 1 } else { 0 }),
        }
    }
    /// true for the first case of the first workers: the case should attach a written-out sample
    pub fn take_sample(&self) -> bool {
        self.samples_left
            .fetch_update(Ordering::Relaxed, Ordering::Relaxed, |x| x.checked_sub(1))
            .is_ok()
    }
    /// fresh private file path
    pub fn path(&self, stem: &str) -> PathBuf {
        let n = self.counter.fetch_add(1, Ordering::Relaxed);
        self.scratch.join(format!("{stem}_{n}"))
    }
    pub fn write(&self, stem: &str, data: &[u8]) -> PathBuf {
        let p = self.path(stem);
        std::fs::write(&p, data).expect("scratch write");
        p
    }
    pub fn cleanup(&self) {
        // remove all files of this worker (keep dir)
        if let Ok(rd) = std::fs::read_dir(&self.scratch) {
            for e in rd.flatten() {
                let _ = std::fs::remove_file(e.path());
            }
        }
    }
}

pub type GenFn = Box<dyn Fn(&mut Tape, &Worker) -> CaseResult + Sync + Send>;
pub type EnumFn = Box<dyn Fn(u64, &Worker) -> CaseResult + Sync + Send>;

pub enum PhaseKind {
    /// proptest-generated tapes
    Gen {
        cases: (u32, u32),
        tape_len: usize,
        f: GenFn,
    },
    /// plain enumeration 0..n (n may depend on tier); `exhaustive` says whether n covers the whole sub-space
    Enum {
        n: (u64, u64),
        exhaustive: (bool, bool),
        f: EnumFn,
    },
}

pub struct Phase {
    pub name: &'static str,
    pub kind: PhaseKind,
    /// number of worker threads (CLI heavy phases use 16, cheap in-process ones too)
    pub threads: usize,
}

/// coverage-guided campaign (libFuzzer target under /verif/fuzz) attached to a property's thorough tier
pub struct FuzzSpec {
    pub target: &'static str,
    pub secs: u64,
    pub jobs: usize,
    /// writes seed inputs into the directory
    pub corpus: fn(&Path, u64),
    /// does this crash output belong to the property (a target may serve several properties)?
    pub is_mine: fn(&str) -> bool,
    /// signature of a crash output
    pub signature: fn(&str) -> String,
}

pub struct Property {
    pub id: &'static str,
    pub rule: &'static str,
    pub assumptions: Vec<String>,
    pub phases: Vec<Phase>,
}

#[derive(Default)]
struct Acc {
    evaluations: u64,
    execs: u64,
    fingerprints: HashSet<u64>,
    labels: BTreeMap<String, u64>,
    excluded: BTreeMap<String, u64>,
    samples: Vec<Value>,
    known_hits: BTreeMap<String, u64>,
    per_phase: BTreeMap<String, Value>,
}

#[derive(Clone, Debug)]
pub struct KnownFinding {
    pub property: String,
    pub status: String,
    pub signature: String,
    pub what_fails: String,
}

pub fn load_known_findings() -> Vec<KnownFinding> {
    let p = verif_root().join("known_findings.json");
    let Ok(s) = std::fs::read_to_string(&p) else {
        return vec![];
    };
    let v: Value = serde_json::from_str(&s).expect("known_findings.json is not valid JSON");
    v.as_array()
        .map(|a| {
            a.iter()
                .map(|e| KnownFinding {
                    property: e["property"].as_str().unwrap_or("").to_string(),
                    status: e["status"].as_str().unwrap_or("").to_string(),
                    signature: e["signature"].as_str().unwrap_or("").to_string(),
                    what_fails: e["what_fails"].as_str().unwrap_or("").to_string(),
                })
                .collect()
        })
        .unwrap_or_default()
}

pub struct RunCfg {
    pub tier: Tier,
    pub seed: u64,
    pub cli: PathBuf,
    pub scratch_root: PathBuf,
    pub only_phase: Option<String>,
}

struct Violation {
    phase: String,
    fail: Fail,
    replay: Value,
}

fn is_known(known: &[KnownFinding], prop: &str, sig: &str) -> Option<KnownFinding> {
    known
        .iter()
        .find(|k| k.property == prop && k.status == "finding" && k.signature == sig)
        .cloned()
}

/// A panic while a case is evaluated (in library code called in-process, or in the harness itself) must not take the
/// whole run down silently: it becomes a failure of that case, with the panic message as signature.
pub fn guarded<F: FnOnce() -> CaseResult>(f: F) -> CaseResult {
    match std::panic::catch_unwind(std::panic::AssertUnwindSafe(f)) {
        Ok(r) => r,
        Err(e) => {
            let msg = if let Some(s) = e.downcast_ref::<&str>() {
                s.to_string()
            } else if let Some(s) = e.downcast_ref::<String>() {
                s.clone()
            } else {
                "panic".to_string()
            };
            let short: String = msg.chars().filter(|c| !c.is_ascii_digit()).take(60).collect();
            Err(Fail::new(format!("panic-while-evaluating:{short}"), format!("code called in-process panicked: {msg}"), serde_json::json!({"panic": msg})))
        }
    }
}

pub fn run_property(prop: &Property, cfg: &RunCfg, fuzz: &[FuzzSpec]) -> i32 {
    let t0 = Instant::now();
    let known = load_known_findings();
    let acc = Mutex::new(Acc::default());
    let mut violations: Vec<Violation> = vec![];
    let mut exhaustive_all = true;
    let mut any_enum = false;
    let mut regress_failures = 0u64;

    // ---- replay tier: every saved reproduction under replays/<id>/ is re-executed first (seconds)
    let mut replayed = 0u64;
    if cfg.only_phase.is_none() {
        let dir = verif_root().join("replays").join(prop.id);
        let mut files: Vec<PathBuf> = std::fs::read_dir(&dir)
            .map(|rd| rd.flatten().map(|e| e.path()).filter(|p| p.extension().map(|x| x == "json").unwrap_or(false)).collect())
            .unwrap_or_default();
        files.sort();
        let w = Worker::new(0, cfg.scratch_root.join("saved_replays"), cfg.cli.clone(), cfg.tier, true);
        for file in files {
            let Ok(body) = std::fs::read_to_string(&file) else { continue };
            let Ok(v) = serde_json::from_str::<Value>(&body) else { continue };
            let phase_name = v["phase"].as_str().unwrap_or("");
            let Some(phase) = prop.phases.iter().find(|p| p.name == phase_name) else { continue };
            let r = match &phase.kind {
                PhaseKind::Gen { f, .. } => {
                    let tape = expand_tape(&v["tape"]);
                    let mut t = Tape::new(&tape);
                    guarded(|| f(&mut t, &w))
                }
                PhaseKind::Enum { f, .. } => guarded(|| f(v["index"].as_u64().unwrap_or(0), &w)),
            };
            replayed += 1;
            match r {
                Ok(_) => {}
                Err(fail) => {
                    if let Some(k) = is_known(&known, prop.id, &fail.signature) {
                        *acc.lock().unwrap().known_hits.entry(k.signature).or_default() += 1;
                    } else {
                        eprintln!("[{}] saved replay {} fails again: {} :: {}", prop.id, file.display(), fail.signature, fail.message);
                        println!("VIOLATION property={} replay={}", prop.id, file.display());
                        regress_failures += 1;
                    }
                }
            }
            w.cleanup();
        }
        let _ = std::fs::remove_dir(&w.scratch);
        acc.lock().unwrap().per_phase.insert("saved_replays".into(), json!({"replayed": replayed, "failed": regress_failures}));
    }

    for phase in &prop.phases {
        if let Some(only) = &cfg.only_phase {
            if only != phase.name {
                continue;
            }
        }
        let pt0 = Instant::now();
        let before = acc.lock().unwrap().evaluations;
        match &phase.kind {
            PhaseKind::Gen { cases, tape_len, f } => {
                exhaustive_all = false;
                let total = cfg.tier.pick(cases.0, cases.1);
                let threads = phase.threads.max(1).min(total.max(1) as usize);
                let per = total.div_ceil(threads as u32);
                let results: Vec<Option<Violation>> = std::thread::scope(|s| {
                    let mut hs = vec![];
                    for t in 0..threads {
                        let acc = &acc;
                        let known = &known;
                        let f = f;
                        let cfg = cfg;
                        let prop_id = prop.id;
                        let phase_name = phase.name;
                        let tape_len = *tape_len;
                        hs.push(s.spawn(move || {
                            run_gen_thread(
                                prop_id, phase_name, t, per, tape_len, f, cfg, acc, known,
                            )
                        }));
                    }
                    hs.into_iter().map(|h| h.join().expect("worker thread panicked")).collect()
                });
                for v in results.into_iter().flatten() {
                    violations.push(v);
                }
            }
            PhaseKind::Enum { n, exhaustive, f } => {
                any_enum = true;
                let total = cfg.tier.pick(n.0, n.1);
                if !cfg.tier.pick(exhaustive.0, exhaustive.1) {
                    exhaustive_all = false;
                }
                let threads = phase.threads.max(1);
                let next = AtomicU64::new(0);
                let stop = AtomicBool::new(false);
                let results: Vec<Vec<Violation>> = std::thread::scope(|s| {
                    let mut hs = vec![];
                    for t in 0..threads {
                        let acc = &acc;
                        let known = &known;
                        let next = &next;
                        let stop = &stop;
                        let prop_id = prop.id;
                        let phase_name = phase.name;
                        hs.push(s.spawn(move || {
                            let w = Worker::new(
                                t,
                                cfg.scratch_root.join(format!("{phase_name}_{t}")),
                                cfg.cli.clone(),
                                cfg.tier,
                                false,
                            );
                            let mut out: Vec<Violation> = vec![];
                            loop {
                                if stop.load(Ordering::Relaxed) {
                                    break;
                                }
                                let i = next.fetch_add(1, Ordering::Relaxed);
                                if i >= total {
                                    break;
                                }
                                match guarded(|| f(i, &w)) {
                                    Ok(co) => record(acc, co),
                                    Err(fail) => {
                                        if let Some(k) = is_known(known, prop_id, &fail.signature) {
                                            let mut a = acc.lock().unwrap();
                                            a.evaluations += 1;
                                            *a.known_hits.entry(k.signature.clone()).or_default() += 1;
                                        } else {
                                            if total > 64 {
                                                stop.store(true, Ordering::Relaxed);
                                            }
                                            let replay = json!({
                                                "property": prop_id, "phase": phase_name, "kind": "enum",
                                                "index": i, "signature": fail.signature,
                                                "message": fail.message, "detail": fail.detail,
                                            });
                                            out.push(Violation { phase: phase_name.to_string(), fail, replay });
                                            if total > 64 {
                                                break;
                                            }
                                        }
                                    }
                                }
                                if i % 64 == 0 {
                                    w.cleanup();
                                }
                            }
                            w.cleanup();
                            let _ = std::fs::remove_dir(&w.scratch);
                            out
                        }));
                    }
                    hs.into_iter().map(|h| h.join().expect("worker thread panicked")).collect()
                });
                for v in results.into_iter().flatten() {
                    violations.push(v);
                }
            }
        }
        let mut a = acc.lock().unwrap();
        let done = a.evaluations - before;
        a.per_phase.insert(
            phase.name.to_string(),
            json!({"evaluations": done, "wall_s": pt0.elapsed().as_secs_f64()}),
        );
        eprintln!(
            "[{}] phase {:<24} {:>8} cases  {:>7.1}s",
            prop.id,
            phase.name,
            done,
            pt0.elapsed().as_secs_f64()
        );
    }

    // ---- coverage-guided campaigns (thorough tier only; targets are built by ./check)
    let mut fuzz_reports: Vec<Value> = vec![];
    if cfg.tier == Tier::Thorough && cfg.only_phase.is_none() {
        for spec in fuzz {
            match run_fuzz_campaign(prop.id, spec, cfg, &known) {
                Ok((report, mut viols, known_hits)) => {
                    fuzz_reports.push(report);
                    violations.append(&mut viols);
                    let mut a = acc.lock().unwrap();
                    for k in known_hits {
                        *a.known_hits.entry(k).or_default() += 1;
                    }
                }
                Err(e) => {
                    eprintln!("[{}] fuzz campaign {} not run: {e}", prop.id, spec.target);
                    fuzz_reports.push(json!({"target": spec.target, "skipped": e}));
                }
            }
        }
    }
    // write replay files + print verdict lines
    let a = acc.into_inner().unwrap();
    let mut viol_lines = vec![];
    {
        // one replay per distinct signature (keep the smallest case)
        let mut bysig: BTreeMap<String, Violation> = BTreeMap::new();
        for v in violations.drain(..) {
            let key = format!("{}|{}", v.phase, v.fail.signature);
            let size = v.replay["tape_nonzero"].as_u64().unwrap_or(0);
            match bysig.get(&key) {
                Some(old) if old.replay["tape_nonzero"].as_u64().unwrap_or(0) <= size => {}
                _ => {
                    bysig.insert(key, v);
                }
            }
        }
        violations = bysig.into_values().collect();
    }
    for v in &violations {
        let dir = verif_root().join("replays").join(prop.id);
        std::fs::create_dir_all(&dir).ok();
        let body = serde_json::to_string_pretty(&v.replay).unwrap();
        let name = format!("{}_{:016x}.json", v.phase, fnv_str(&body));
        let path = dir.join(name);
        std::fs::write(&path, body).ok();
        viol_lines.push(format!(
            "VIOLATION property={} replay={}",
            prop.id,
            path.display()
        ));
        eprintln!(
            "[{}] violation in phase {}: {} :: {}",
            prop.id, v.phase, v.fail.signature, v.fail.message
        );
    }
    for (sig, n) in &a.known_hits {
        let what = known
            .iter()
            .find(|k| &k.signature == sig && k.property == prop.id)
            .map(|k| k.what_fails.clone())
            .unwrap_or_default();
        println!("KNOWN-FINDING: property={} {} [signature {} hit {} times]", prop.id, what, sig, n);
    }
    // evidence
    let total_labelled: u64 = a.evaluations.max(1);
    let hist: BTreeMap<String, Value> = a
        .labels
        .iter()
        .map(|(k, v)| {
            (
                k.clone(),
                json!({"count": v, "fraction": (*v as f64) / (total_labelled as f64)}),
            )
        })
        .collect();
    let evidence = json!({
        "property_id": prop.id,
        "tier": cfg.tier.name(),
        "seed": cfg.seed,
        "level": "exploration",
        "coverage": {
            "evaluations": a.evaluations,
            "distinct_nontrivial": a.fingerprints.len(),
            "rule": prop.rule,
            "samples": a.samples,
            "exhaustive": any_enum && exhaustive_all && cfg.only_phase.is_none(),
            "cli_executions": a.execs,
            "label_histogram": hist,
            "exclusions": a.excluded,
            "phases": a.per_phase,
            "known_findings_hit": a.known_hits,
            "fuzz_campaigns": fuzz_reports,
        },
        "assumptions": prop.assumptions,
        "wall_s": t0.elapsed().as_secs_f64(),
        "violations": violations.len() as u64 + regress_failures,
    });
    let evdir = verif_root().join("evidence");
    std::fs::create_dir_all(&evdir).ok();
    if cfg.only_phase.is_none() {
        std::fs::write(
            evdir.join(format!("{}.json", prop.id)),
            serde_json::to_string_pretty(&evidence).unwrap(),
        )
        .expect("write evidence");
    }
    let _ = std::fs::remove_dir_all(&cfg.scratch_root);
    eprintln!(
        "[{}] {} tier={} seed={} evaluations={} distinct_nontrivial={} cli_execs={} wall={:.1}s violations={}",
        prop.id,
        if violations.is_empty() && regress_failures == 0 { "OK" } else { "FAILED" },
        cfg.tier.name(),
        cfg.seed,
        a.evaluations,
        a.fingerprints.len(),
        a.execs,
        t0.elapsed().as_secs_f64(),
        violations.len()
    );
    for l in &viol_lines {
        println!("{l}");
    }
    if violations.is_empty() && regress_failures == 0 {
        0
    } else {
        1
    }
}

fn record(acc: &Mutex<Acc>, co: CaseOut) {
    let mut a = acc.lock().unwrap();
    a.evaluations += 1;
    a.execs += co.execs;
    if co.nontrivial {
        a.fingerprints.insert(co.fingerprint);
    }
    let mut labels = co.labels;
    labels.sort();
    labels.dedup();
    for l in labels {
        *a.labels.entry(l).or_default() += 1;
    }
    for l in co.excluded {
        *a.excluded.entry(l).or_default() += 1;
    }
    if let Some(s) = co.sample {
        if a.samples.len() < 6 {
            a.samples.push(s);
        }
    }
}

#[allow(clippy::too_many_arguments)]
fn run_gen_thread(
    prop_id: &str,
    phase_name: &str,
    t: usize,
    cases: u32,
    tape_len: usize,
    f: &GenFn,
    cfg: &RunCfg,
    acc: &Mutex<Acc>,
    known: &[KnownFinding],
) -> Option<Violation> {
    let w = Worker::new(
        t,
        cfg.scratch_root.join(format!("{phase_name}_{t}")),
        cfg.cli.clone(),
        cfg.tier,
        false,
    );
    let seed = mix(cfg.seed ^ mix(fnv_str(prop_id) ^ mix(fnv_str(phase_name) ^ (t as u64))));
    let mut seed_bytes = [0u8; 32];
    for i in 0..4 {
        seed_bytes[i * 8..i * 8 + 8].copy_from_slice(&mix(seed.wrapping_add(i as u64)).to_le_bytes());
    }
    let _ = seed_bytes;
    let config = Config {
        cases,
        failure_persistence: None,
        rng_seed: RngSeed::Fixed(seed),
        max_shrink_iters: 0, // proptest generates; reduction is done by shrink_tape() below
        max_shrink_time: 0,
        verbose: 0,
        ..Config::default()
    };
    let mut runner = TestRunner::new(config);
    let strat = proptest::collection::vec(any::<u16>(), (tape_len * 3 / 4).max(1)..=tape_len);
    let counting = AtomicBool::new(true);
    let n_seen = AtomicU64::new(0);
    let first_fail: Mutex<Option<Fail>> = Mutex::new(None);
    let res = runner.run(&strat, |tape_vec| {
        let mut tape = Tape::new(&tape_vec);
        let r = guarded(|| f(&mut tape, &w));
        let n = n_seen.fetch_add(1, Ordering::Relaxed);
        if n % 32 == 0 {
            w.cleanup();
        }
        match r {
            Ok(co) => {
                if counting.load(Ordering::Relaxed) {
                    record(acc, co);
                }
                Ok(())
            }
            Err(fail) => {
                if let Some(k) = is_known(known, prop_id, &fail.signature) {
                    if counting.load(Ordering::Relaxed) {
                        let mut a = acc.lock().unwrap();
                        a.evaluations += 1;
                        *a.known_hits.entry(k.signature).or_default() += 1;
                    }
                    Ok(())
                } else {
                    counting.store(false, Ordering::Relaxed);
                    let sig = fail.signature.clone();
                    first_fail.lock().unwrap().get_or_insert(fail);
                    Err(TestCaseError::fail(sig))
                }
            }
        }
    });
    let out = match res {
        Ok(()) => None,
        Err(TestError::Fail(reason, found)) => {
            // reduce the failing tape (same signature must keep failing), then re-run it for the detail
            let sig = reason.message().to_string();
            // a hang costs minutes per evaluation: keep the tape and the failure as found
            let as_found = if sig.contains("hang") { first_fail.lock().unwrap().take().filter(|fl| fl.signature == sig) } else { None };
            let (minimal, shrunk_fail) = match as_found {
                Some(fl) => (found, Some(fl)),
                None => shrink_tape(f, &w, found, &sig, known, prop_id, 600),
            };
            let fail = match shrunk_fail {
                Some(fl) => fl,
                None => {
                    // the failure did not reproduce once while reducing (schedule dependent?): try the found tape again
                    let mut got = None;
                    for _ in 0..10 {
                        let mut tape = Tape::new(&minimal);
                        if let Err(fl) = guarded(|| f(&mut tape, &w)) {
                            got = Some(fl);
                            break;
                        }
                    }
                    got.unwrap_or_else(|| Fail::new(
                        format!("flaky:{sig}"),
                        "the failing case did not fail again in 10 re-executions (non-deterministic behaviour of the tool); signature of the first failure kept",
                        json!({"first_signature": sig}),
                    ))
                }
            };
            let nonzero = minimal.iter().filter(|x| **x != 0).count();
            let replay = json!({
                "property": prop_id, "phase": phase_name, "kind": "gen", "seed": cfg.seed, "tier": cfg.tier.name(),
                "tape_len": minimal.len(), "tape_nonzero": nonzero,
                "tape": compress_tape(&minimal), "signature": fail.signature, "message": fail.message, "detail": fail.detail,
            });
            Some(Violation {
                phase: phase_name.to_string(),
                fail,
                replay,
            })
        }
        Err(TestError::Abort(reason)) => {
            eprintln!("[{prop_id}] phase {phase_name} thread {t}: proptest aborted: {reason}");
            None
        }
    };
    w.cleanup();
    let _ = std::fs::remove_dir(&w.scratch);
    out
}

fn fuzz_bin(target: &str) -> PathBuf {
    verif_root().join("target/fuzz/x86_64-unknown-linux-gnu/release").join(target)
}

type FuzzOutcome = (Value, Vec<Violation>, Vec<String>);

fn run_fuzz_campaign(prop_id: &str, spec: &FuzzSpec, cfg: &RunCfg, known: &[KnownFinding]) -> Result<FuzzOutcome, String> {
    let bin = fuzz_bin(spec.target);
    if !bin.exists() {
        return Err(format!("{} not built", bin.display()));
    }
    let t0 = Instant::now();
    let work = verif_root().join(format!("target/fuzz_work/{}_{}_{}", prop_id, spec.target, std::process::id()));
    let corpus = work.join("corpus");
    let arts = work.join("artifacts");
    std::fs::create_dir_all(&corpus).map_err(|e| e.to_string())?;
    std::fs::create_dir_all(&arts).map_err(|e| e.to_string())?;
    (spec.corpus)(&corpus, cfg.seed);
    let n_seed = std::fs::read_dir(&corpus).map(|r| r.count()).unwrap_or(0);
    let mut children = vec![];
    for j in 0..spec.jobs {
        let out = std::fs::File::create(work.join(format!("job{j}.log"))).map_err(|e| e.to_string())?;
        let child = std::process::Command::new(&bin)
            .arg(&corpus)
            .arg(format!("-max_total_time={}", spec.secs))
            .arg("-len_control=0")
            .arg("-max_len=40000")
            .arg("-timeout=30")
            .arg("-rss_limit_mb=4096")
            .arg("-reload=1")
            .arg("-print_final_stats=1")
            .arg(format!("-seed={}", (cfg.seed % 1_000_000) * 16 + j as u64 + 1))
            .arg(format!("-artifact_prefix={}/job{j}_", arts.display()))
            .env("RUST_BACKTRACE", "0")
            .env("ASAN_OPTIONS", "detect_odr_violation=0:abort_on_error=0")
            .stdout(std::process::Stdio::null())
            .stderr(out)
            .spawn()
            .map_err(|e| e.to_string())?;
        children.push(child);
    }
    for mut c in children {
        let _ = c.wait();
    }
    let mut execs = 0u64;
    let mut cov = 0u64;
    let mut crash_outputs: Vec<(PathBuf, String)> = vec![];
    for j in 0..spec.jobs {
        let log = std::fs::read_to_string(work.join(format!("job{j}.log"))).unwrap_or_default();
        for l in log.lines() {
            if let Some(v) = l.strip_prefix("stat::number_of_executed_units:") {
                execs += v.trim().parse::<u64>().unwrap_or(0);
            }
            if let Some(i) = l.find(" cov: ") {
                let c: u64 = l[i + 6..].split(' ').next().unwrap_or("0").parse().unwrap_or(0);
                cov = cov.max(c);
            }
        }
        if let Some(i) = log.find("Test unit written to ") {
            let path = log[i + "Test unit written to ".len()..].lines().next().unwrap_or("").trim().to_string();
            crash_outputs.push((PathBuf::from(path), log.clone()));
        }
    }
    let mut viols = vec![];
    let mut known_hits = vec![];
    let mut foreign = 0;
    let mut not_reproduced = 0;
    for (art, log) in &crash_outputs {
        // the crash text: from the first "panicked at" / "ERROR: " line
        let start = log.find("panicked at").or_else(|| log.find("ERROR: ")).unwrap_or(0);
        let text: String = log[start..].chars().take(1500).collect();
        if !(spec.is_mine)(&text) {
            foreign += 1;
            continue;
        }
        let sig = (spec.signature)(&text);
        if is_known(known, prop_id, &sig).is_some() {
            known_hits.push(sig);
            continue;
        }
        let bytes = std::fs::read(art).unwrap_or_default();
        // a time / memory limit of the fuzzer is not a verdict about the property, and an artifact counts only when the
        // target fails on it again from a fresh process (a unit that outlived -timeout on a loaded machine does not)
        let fname = art.file_name().map(|f| f.to_string_lossy().to_string()).unwrap_or_default();
        let limit_artifact = ["timeout-", "oom-", "slow-unit-"].iter().any(|p| fname.contains(p));
        let reproduced = !limit_artifact && (0..2).any(|_| {
            std::process::Command::new(fuzz_bin(spec.target))
                .arg(art)
                .env("ASAN_OPTIONS", "detect_odr_violation=0:abort_on_error=0")
                .stdout(std::process::Stdio::null())
                .stderr(std::process::Stdio::null())
                .status()
                .map(|st| !st.success())
                .unwrap_or(false)
        });
        if !reproduced {
            not_reproduced += 1;
            eprintln!("[{prop_id}] fuzz {}: artifact {fname} does not fail when replayed ({}): not counted", spec.target, if limit_artifact { "fuzzer limit" } else { "2 fresh executions pass" });
            continue;
        }
        let replay = json!({
            "property": prop_id, "phase": format!("fuzz:{}", spec.target), "kind": "fuzz", "target": spec.target, "seed": cfg.seed,
            "tape_nonzero": bytes.len(), "artifact_hex": crate::tape::hex(&bytes), "signature": sig, "message": text,
        });
        viols.push(Violation { phase: format!("fuzz_{}", spec.target), fail: Fail::new(sig, text.lines().take(2).collect::<Vec<_>>().join(" | "), json!({})), replay });
    }
    let n_corpus = std::fs::read_dir(&corpus).map(|r| r.count()).unwrap_or(0);
    let report = json!({
        "target": spec.target, "engine": "libFuzzer (cargo-fuzz, -O, AddressSanitizer)", "jobs": spec.jobs, "seconds_per_job": spec.secs, "executions": execs, "edge_coverage": cov,
        "seed_inputs": n_seed, "corpus_after": n_corpus, "crashes_for_this_property": viols.len(), "crashes_of_other_properties_oracle": foreign, "artifacts_not_reproduced_or_fuzzer_limits": not_reproduced, "wall_s": t0.elapsed().as_secs_f64(),
    });
    eprintln!("[{prop_id}] fuzz {:<10} {:>10} execs  cov {:>6}  corpus {:>5}  {:>6.1}s  crashes {}", spec.target, execs, cov, n_corpus, t0.elapsed().as_secs_f64(), viols.len());
    let _ = std::fs::remove_dir_all(&work);
    Ok((report, viols, known_hits))
}

/// run-length form: [[value, repeat], ...] keeps replay files small (shrunk tapes are mostly zeros)
fn compress_tape(t: &[u16]) -> Value {
    let mut out: Vec<Value> = vec![];
    let mut i = 0;
    while i < t.len() {
        let mut j = i;
        while j < t.len() && t[j] == t[i] {
            j += 1;
        }
        out.push(json!([t[i], j - i]));
        i = j;
    }
    Value::Array(out)
}

fn expand_tape(v: &Value) -> Vec<u16> {
    let mut out = vec![];
    if let Some(a) = v.as_array() {
        for e in a {
            if let Some(pair) = e.as_array() {
                let val = pair.first().and_then(|x| x.as_u64()).unwrap_or(0) as u16;
                let rep = pair.get(1).and_then(|x| x.as_u64()).unwrap_or(1) as usize;
                out.extend(std::iter::repeat(val).take(rep));
            } else {
                out.push(e.as_u64().unwrap_or(0) as u16);
            }
        }
    }
    out
}

/// Delta-debugging on the choice tape: zero blocks (halving sizes), cut the tail, then lower the
/// remaining non-zero values.  A candidate is kept only if it fails with the *same* signature.
fn shrink_tape(
    f: &GenFn,
    w: &Worker,
    start: Vec<u16>,
    sig: &str,
    known: &[KnownFinding],
    prop_id: &str,
    budget: usize,
) -> (Vec<u16>, Option<Fail>) {
    let mut best = start;
    let mut evals = 0usize;
    let t_start = Instant::now();
    let last_fail: std::cell::RefCell<Option<Fail>> = std::cell::RefCell::new(None);
    let mut still_fails = |cand: &[u16], evals: &mut usize| -> bool {
        *evals += 1;
        let mut t = Tape::new(cand);
        let r = guarded(|| f(&mut t, w));
        if *evals % 16 == 0 {
            w.cleanup();
        }
        match r {
            Err(fail) => {
                let same = fail.signature == sig && is_known(known, prop_id, &fail.signature).is_none();
                if same {
                    *last_fail.borrow_mut() = Some(fail);
                }
                same
            }
            Ok(_) => false,
        }
    };
    // detail of the failure on the tape as found (a few attempts for schedule-dependent failures)
    for _ in 0..4 {
        if still_fails(&best, &mut evals) {
            break;
        }
    }
    // a hang costs minutes per evaluation: the tape as found is the reproduction
    let budget = if sig.contains("hang") { 0 } else { budget };
    let over = |evals: usize| evals >= budget || t_start.elapsed().as_secs() > 90;
    // 1. cut the tail (zeros are implied)
    while best.len() > 1 && !over(evals) {
        let cand = &best[..best.len() / 2];
        if still_fails(cand, &mut evals) {
            best = cand.to_vec();
        } else {
            break;
        }
    }
    // 2. zero blocks
    let mut size = (best.len() / 2).max(1);
    loop {
        let mut i = 0;
        while i < best.len() && !over(evals) {
            let end = (i + size).min(best.len());
            if best[i..end].iter().any(|x| *x != 0) {
                let mut cand = best.clone();
                for x in cand[i..end].iter_mut() {
                    *x = 0;
                }
                if still_fails(&cand, &mut evals) {
                    best = cand;
                }
            }
            i += size;
        }
        if size == 1 || over(evals) {
            break;
        }
        size = (size / 2).max(1);
    }
    // 3. lower remaining values (binary search towards 0)
    let idxs: Vec<usize> = (0..best.len()).filter(|i| best[*i] != 0).collect();
    for i in idxs {
        if over(evals) {
            break;
        }
        let mut lo = 0u32;
        let mut hi = best[i] as u32;
        while lo < hi && !over(evals) {
            let mid = (lo + hi) / 2;
            let mut cand = best.clone();
            cand[i] = mid as u16;
            if still_fails(&cand, &mut evals) {
                hi = mid;
                best = cand;
            } else {
                lo = mid + 1;
            }
        }
    }
    // strip trailing zeros
    while best.last() == Some(&0) {
        best.pop();
    }
    let lf = last_fail.borrow_mut().take();
    (best, lf)
}

/// Re-run one saved case. Returns exit code.
pub fn replay_property(prop: &Property, cfg: &RunCfg, file: &Path) -> i32 {
    let body = std::fs::read_to_string(file).expect("cannot read replay file");
    let v: Value = serde_json::from_str(&body).expect("replay file is not JSON");
    let phase_name = v["phase"].as_str().unwrap_or("");
    if v["kind"].as_str() == Some("fuzz") {
        let target = v["target"].as_str().unwrap_or("");
        let bin = fuzz_bin(target);
        if !bin.exists() {
            eprintln!("fuzz target {} is not built (./check builds it for --replay of fuzz files)", bin.display());
            return 2;
        }
        let dir = cfg.scratch_root.join("replay");
        std::fs::create_dir_all(&dir).ok();
        let f = dir.join("artifact");
        std::fs::write(&f, crate::tape::unhex(v["artifact_hex"].as_str().unwrap_or(""))).ok();
        let o = std::process::Command::new(&bin).arg(&f).env("RUST_BACKTRACE", "0").output();
        let _ = std::fs::remove_dir_all(&cfg.scratch_root);
        return match o {
            Ok(o) if o.status.success() => {
                println!("replay: property {} holds on {}", prop.id, file.display());
                0
            }
            Ok(o) => {
                eprintln!("{}", String::from_utf8_lossy(&o.stderr).chars().take(2000).collect::<String>());
                println!("VIOLATION property={} replay={}", prop.id, file.display());
                1
            }
            Err(e) => {
                eprintln!("cannot run {}: {e}", bin.display());
                2
            }
        };
    }
    let Some(phase) = prop.phases.iter().find(|p| p.name == phase_name) else {
        eprintln!("no phase named {phase_name} in property {}", prop.id);
        return 2;
    };
    let w = Worker::new(0, cfg.scratch_root.join("replay"), cfg.cli.clone(), cfg.tier, true);
    let r = match &phase.kind {
        PhaseKind::Gen { f, .. } => {
            let tape: Vec<u16> = expand_tape(&v["tape"]);
            let mut t = Tape::new(&tape);
            guarded(|| f(&mut t, &w))
        }
        PhaseKind::Enum { f, .. } => guarded(|| f(v["index"].as_u64().unwrap_or(0), &w)),
    };
    let _ = std::fs::remove_dir_all(&cfg.scratch_root);
    match r {
        Ok(_) => {
            println!("replay: property {} holds on {}", prop.id, file.display());
            0
        }
        Err(fail) => {
            eprintln!("replay: {} :: {}\n{}", fail.signature, fail.message, serde_json::to_string_pretty(&fail.detail).unwrap());
            println!("VIOLATION property={} replay={}", prop.id, file.display());
            1
        }
    }
}
