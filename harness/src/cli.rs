//! Driver for the real CLI binary + parsers for its textual output.

use regex::Regex;
use serde_json::{json, Value};
use std::io::{Read, Write};
use std::path::{Path, PathBuf};
use std::process::{Command, Stdio};
use std::sync::OnceLock;
use std::time::{Duration, Instant};

#[derive(Clone, Debug)]
pub enum Input {
    File(PathBuf),
    /// bytes fed through a pipe on stdin; optional chunk size (0 = all at once)
    Pipe(std::sync::Arc<Vec<u8>>, usize),
    /// stdin closed immediately with no data at all (empty pipe)
    None,
}

#[derive(Clone, Debug)]
pub enum Action {
    None,
    /// send signal after delay (microseconds)
    Signal(i32, u64),
    /// close our end of the stdout pipe after reading N bytes
    CloseStdoutAfter(usize),
}

#[derive(Clone, Debug)]
pub struct RunSpec {
    pub args: Vec<String>,
    pub input: Input,
    pub env: Vec<(String, String)>,
    pub action: Action,
    pub timeout: Duration,
    /// keep our end of the stdin pipe open this long after all data was written (a producer that is slow to close)
    pub hold_stdin: Duration,
    /// a producer that stalls: after this many bytes on stdin nothing is written for the given time
    pub pause: Option<(usize, Duration)>,
}

impl RunSpec {
    pub fn new(args: Vec<String>, input: Input) -> Self {
        RunSpec {
            args,
            input,
            env: vec![],
            action: Action::None,
            timeout: Duration::from_secs(20),
            hold_stdin: Duration::ZERO,
            pause: None,
        }
    }
    pub fn describe(&self) -> Value {
        json!({
            "args": self.args,
            "input": match &self.input { Input::File(p) => format!("file:{}", p.display()), Input::Pipe(b, c) => format!("pipe:{} bytes chunk {}", b.len(), c), Input::None => "closed-stdin".into() },
            "env": self.env,
            "action": format!("{:?}", self.action),
            "stdin_pause": format!("{:?}", self.pause),
            "stdin_held_open_ms": self.hold_stdin.as_millis() as u64,
        })
    }
}

#[derive(Clone, Debug, Default)]
pub struct RunOut {
    pub code: Option<i32>,
    pub signal: Option<i32>,
    pub stdout: Vec<u8>,
    pub stderr: String,
    pub timed_out: bool,
    pub wall: Duration,
    /// the process was still alive when the action fired
    pub action_landed: bool,
}

impl RunOut {
    pub fn stdout_str(&self) -> String {
        String::from_utf8_lossy(&self.stdout).into_owned()
    }
    pub fn panic_line(&self) -> Option<String> {
        let s = &self.stderr;
        if let Some(i) = s.find("panicked at") {
            let start = s[..i].rfind('\n').map(|x| x + 1).unwrap_or(0);
            let rest = &s[start..];
            let mut lines = rest.lines();
            let l1 = lines.next().unwrap_or("").to_string();
            let l2 = lines.next().unwrap_or("").to_string();
            return Some(format!("{l1} | {l2}"));
        }
        None
    }
    /// signature of a crash: panic@<file>:"<message prefix>"  (no line numbers)
    pub fn crash_signature(&self) -> Option<String> {
        if let Some(i) = self.stderr.find("panicked at ") {
            let rest = &self.stderr[i + "panicked at ".len()..];
            let loc = rest.lines().next().unwrap_or("");
            let file = loc.split(':').next().unwrap_or("").trim().to_string();
            let file = file.rsplit("/src/").next().unwrap_or(&file).to_string();
            let msg: String = rest.lines().nth(1).unwrap_or("").chars().take(48).collect();
            let msg = strip_numbers(&msg);
            return Some(format!("panic@{file}:\"{msg}\""));
        }
        if let Some(sig) = self.signal {
            return Some(format!("signal:{sig}"));
        }
        None
    }
    pub fn brief(&self) -> Value {
        let se: String = self.stderr.chars().take(1500).collect();
        let so: String = self.stdout_str().chars().take(600).collect();
        json!({"exit": self.code, "signal": self.signal, "timed_out": self.timed_out,
               "stderr_head": strip_ansi(&se), "stdout_head": strip_ansi(&so), "wall_ms": self.wall.as_millis() as u64})
    }
}

fn strip_numbers(s: &str) -> String {
    // replace digit runs by '#', so that offsets / values do not make signatures unique
    let mut out = String::new();
    let mut in_num = false;
    for c in s.chars() {
        if c.is_ascii_digit() {
            if !in_num {
                out.push('#');
            }
            in_num = true;
        } else {
            in_num = false;
            out.push(c);
        }
    }
    out
}

/// Runs the tool; a watchdog expiry is only believed after two more attempts with a four and twelve times longer
/// limit (at least 60 s / 180 s): on a busy machine a slow run must never look like a hang.
pub fn run(bin: &Path, spec: &RunSpec) -> RunOut {
    let o = run_once(bin, spec);
    if !o.timed_out {
        return o;
    }
    let mut s2 = spec.clone();
    s2.timeout = (spec.timeout * 4).min(Duration::from_secs(120)).max(Duration::from_secs(60)).max(spec.timeout);
    let o2 = run_once(bin, &s2);
    if !o2.timed_out {
        return o2;
    }
    // once a hang has been confirmed with the longest limit in this process, later expiries are believed after the
    // first confirmation (a tree that hangs would otherwise cost four minutes per case)
    if CONFIRMED_HANGS.load(std::sync::atomic::Ordering::Relaxed) >= 2 {
        return o2;
    }
    s2.timeout = (spec.timeout * 12).min(Duration::from_secs(300)).max(Duration::from_secs(180)).max(spec.timeout);
    let o3 = run_once(bin, &s2);
    if o3.timed_out {
        CONFIRMED_HANGS.fetch_add(1, std::sync::atomic::Ordering::Relaxed);
    }
    o3
}

/// number of runs of this process that outlived the watchdog three times (12x limit, at least 180 s)
pub static CONFIRMED_HANGS: std::sync::atomic::AtomicU64 = std::sync::atomic::AtomicU64::new(0);

fn run_once(bin: &Path, spec: &RunSpec) -> RunOut {
    let t0 = Instant::now();
    let mut cmd = Command::new(bin);
    cmd.args(&spec.args);
    cmd.env("RUST_BACKTRACE", "0");
    cmd.env_remove("FASTPASTA_VERIF_SCHED");
    cmd.env_remove("FASTPASTA_VERIF_TRACE");
    for (k, v) in &spec.env {
        cmd.env(k, v);
    }
    match &spec.input {
        Input::File(_) => {
            // stdin must not be a terminal nor block: give /dev/null
            cmd.stdin(Stdio::null());
        }
        Input::Pipe(..) | Input::None => {
            cmd.stdin(Stdio::piped());
        }
    }
    cmd.stdout(Stdio::piped());
    cmd.stderr(Stdio::piped());
    let mut child = match cmd.spawn() {
        Ok(c) => c,
        Err(e) => {
            return RunOut {
                stderr: format!("spawn failed: {e}"),
                timed_out: true,
                ..Default::default()
            }
        }
    };
    let pid = child.id() as i32;
    // feeder
    let feeder = match &spec.input {
        Input::Pipe(data, chunk) => {
            let mut stdin = child.stdin.take().unwrap();
            let data = data.clone();
            let chunk = *chunk;
            let hold = spec.hold_stdin;
            let pause = spec.pause;
            Some(std::thread::spawn(move || {
                if let Some((n, d)) = pause {
                    let n = n.min(data.len());
                    if stdin.write_all(&data[..n]).is_ok() {
                        let _ = stdin.flush();
                        std::thread::sleep(d);
                        let _ = stdin.write_all(&data[n..]);
                    }
                } else if chunk == 0 {
                    let _ = stdin.write_all(&data);
                } else {
                    for c in data.chunks(chunk) {
                        if stdin.write_all(c).is_err() {
                            break;
                        }
                        let _ = stdin.flush();
                    }
                }
                if !hold.is_zero() {
                    let _ = stdin.flush();
                    std::thread::sleep(hold);
                }
                drop(stdin);
            }))
        }
        Input::None => {
            drop(child.stdin.take());
            None
        }
        Input::File(_) => None,
    };
    let mut stdout = child.stdout.take().unwrap();
    let mut stderr = child.stderr.take().unwrap();
    let close_after = match spec.action {
        Action::CloseStdoutAfter(n) => Some(n),
        _ => None,
    };
    let out_reader = std::thread::spawn(move || {
        let mut buf = Vec::new();
        match close_after {
            None => {
                let _ = stdout.read_to_end(&mut buf);
            }
            Some(n) => {
                let mut tmp = [0u8; 4096];
                while buf.len() < n {
                    let want = (n - buf.len()).min(tmp.len());
                    match stdout.read(&mut tmp[..want]) {
                        Ok(0) => break,
                        Ok(k) => buf.extend_from_slice(&tmp[..k]),
                        Err(_) => break,
                    }
                }
                drop(stdout); // reader goes away
            }
        }
        buf
    });
    let err_reader = std::thread::spawn(move || {
        let mut buf = Vec::new();
        let _ = stderr.read_to_end(&mut buf);
        String::from_utf8_lossy(&buf).into_owned()
    });
    let mut action_landed = false;
    let mut signalled = false;
    let mut timed_out = false;
    let status;
    loop {
        match child.try_wait() {
            Ok(Some(st)) => {
                status = Some(st);
                break;
            }
            Ok(None) => {}
            Err(_) => {
                status = None;
                break;
            }
        }
        if let Action::Signal(sig, delay_us) = spec.action {
            if !signalled && t0.elapsed() >= Duration::from_micros(delay_us) {
                // still alive (try_wait said so just now)
                unsafe {
                    libc::kill(pid, sig);
                }
                signalled = true;
                action_landed = true;
            }
        }
        if t0.elapsed() > spec.timeout {
            timed_out = true;
            unsafe {
                libc::kill(pid, libc::SIGKILL);
            }
            status = child.wait().ok();
            break;
        }
        std::thread::sleep(Duration::from_micros(300));
    }
    let stdout = out_reader.join().unwrap_or_default();
    let stderr = err_reader.join().unwrap_or_default();
    if let Some(f) = feeder {
        let _ = f.join();
    }
    if let Some(n) = close_after {
        action_landed = stdout.len() >= n;
    }
    let (code, signal) = match status {
        Some(st) => {
            use std::os::unix::process::ExitStatusExt;
            (st.code(), st.signal())
        }
        None => (None, None),
    };
    RunOut {
        code,
        signal: if timed_out { None } else { signal },
        stdout,
        stderr,
        timed_out,
        wall: t0.elapsed(),
        action_landed,
    }
}

// ------------------------------------------------------------------------------------------------
// parsers
// ------------------------------------------------------------------------------------------------

pub fn strip_ansi(s: &str) -> String {
    static RE: OnceLock<Regex> = OnceLock::new();
    let re = RE.get_or_init(|| Regex::new("\x1b\\[[0-9;]*[A-Za-z]").unwrap());
    re.replace_all(s, "").into_owned()
}

#[derive(Clone, Debug, PartialEq, Eq)]
pub struct LogRecord {
    pub level: String,
    pub text: String, // may be multi-line, ANSI removed
    pub red: bool,    // printed through display_error (red)
}

pub fn parse_log(stderr: &str) -> Vec<LogRecord> {
    let mut recs: Vec<LogRecord> = vec![];
    for raw_line in stderr.split('\n') {
        let line = strip_ansi(raw_line);
        let mut started = false;
        for lvl in ["ERROR", "WARN", "INFO", "DEBUG", "TRACE"] {
            let pre = format!("{lvl} ");
            if line.starts_with(&pre) || line == lvl {
                recs.push(LogRecord {
                    level: lvl.to_string(),
                    text: line[pre.len().min(line.len())..].to_string(),
                    red: raw_line.contains("\x1b[31m"),
                });
                started = true;
                break;
            }
        }
        if !started {
            if let Some(last) = recs.last_mut() {
                last.text.push('\n');
                last.text.push_str(&line);
            } else if !line.trim().is_empty() {
                recs.push(LogRecord {
                    level: "RAW".into(),
                    text: line,
                    red: false,
                });
            }
        }
    }
    for r in recs.iter_mut() {
        while r.text.ends_with('\n') {
            r.text.pop();
        }
    }
    recs
}

#[derive(Clone, Debug, PartialEq, Eq)]
pub struct ErrMsg {
    pub offset: u64,
    pub codes: Vec<String>,
    pub text: String,
    /// trailing [b0 .. b9] dump if present
    pub dump: Option<[u8; 10]>,
}

pub fn parse_err_msg(text: &str) -> Option<ErrMsg> {
    static RE_OFF: OnceLock<Regex> = OnceLock::new();
    static RE_CODE: OnceLock<Regex> = OnceLock::new();
    static RE_DUMP: OnceLock<Regex> = OnceLock::new();
    let re_off = RE_OFF.get_or_init(|| Regex::new(r"^0x([0-9A-F]+): ").unwrap());
    let re_code = RE_CODE.get_or_init(|| Regex::new(r"\[E([0-9]{2,4})\]").unwrap());
    let re_dump = RE_DUMP.get_or_init(|| Regex::new(r"\[((?:[0-9A-F]{2} ){9}[0-9A-F]{2})\]\s*$").unwrap());
    let c = re_off.captures(text)?;
    let offset = u64::from_str_radix(&c[1], 16).ok()?;
    let codes = re_code.captures_iter(text).map(|m| m[1].to_string()).collect();
    let first_line = text.lines().next().unwrap_or("");
    let dump = re_dump.captures(first_line).map(|m| {
        let mut b = [0u8; 10];
        for (i, h) in m[1].split(' ').enumerate() {
            b[i] = u8::from_str_radix(h, 16).unwrap_or(0);
        }
        b
    });
    Some(ErrMsg {
        offset,
        codes,
        text: text.to_string(),
        dump,
    })
}

/// error messages (red ERROR records that begin with an offset) in display order
pub fn error_messages(stderr: &str) -> Vec<ErrMsg> {
    parse_log(stderr)
        .iter()
        .filter(|r| r.level == "ERROR")
        .filter_map(|r| parse_err_msg(&r.text))
        .collect()
}

/// all red ERROR records (incl. custom check failures and stats mismatches, which carry no offset)
pub fn red_error_records(stderr: &str) -> Vec<LogRecord> {
    parse_log(stderr).into_iter().filter(|r| r.level == "ERROR" && r.red).collect()
}

pub fn has_fatal(stderr: &str) -> bool {
    parse_log(stderr).iter().any(|r| r.level == "ERROR" && r.text.starts_with("FATAL:"))
}

/// generic stats tree from the stats file (JSON or TOML)
pub fn parse_stats(text: &str, toml_fmt: bool) -> Option<Value> {
    if toml_fmt {
        let v: toml::Value = toml::from_str(text).ok()?;
        serde_json::to_value(v).ok()
    } else {
        serde_json::from_str(text).ok()
    }
}

/// report table rows: label -> (value, notes)
pub fn parse_report(stdout: &str) -> Vec<(String, String, String)> {
    let clean = strip_ansi(stdout);
    let mut rows = vec![];
    for line in clean.lines() {
        if line.contains("Processed in") {
            continue;
        }
        let inner = line.trim().trim_matches(|c| c == '│' || c == '|').trim();
        // split on 2+ spaces
        let parts: Vec<&str> = inner.split("  ").map(|s| s.trim()).filter(|s| !s.is_empty()).collect();
        if parts.len() >= 2 {
            rows.push((
                parts[0].to_string(),
                parts[1].to_string(),
                parts[2..].join(" "),
            ));
        }
    }
    rows
}

pub fn report_value(rows: &[(String, String, String)], label: &str) -> Option<String> {
    rows.iter().find(|r| r.0 == label).map(|r| r.1.clone())
}

/// report with the processing-time line removed (for determinism comparisons)
pub fn normalized_report(stdout: &str) -> String {
    strip_ansi(stdout)
        .lines()
        .filter(|l| !l.contains("Processed in"))
        .collect::<Vec<_>>()
        .join("\n")
}
