//! Independent ALPIDE lane byte-stream encoder and decoder (from the ALPIDE word table).

use crate::tape::Tape;

#[derive(Clone, Debug, PartialEq, Eq)]
pub enum Item {
    Region(u8),        // 110r rrrr
    Short(u8, u8),     // 01xx xxxx, addr
    Long(u8, u8, u8),  // 00xx xxxx, addr, 0hhh hhhh
    BusyOn,            // F0 (tool's naming is swapped, irrelevant)
    BusyOff,           // F1
    ApeWarn(u8),       // F2 / FD / FE
}

#[derive(Clone, Debug, PartialEq, Eq)]
pub struct ChipSpec {
    pub id: u8,       // 4 bit
    pub bc: u8,       // bunch counter bits 10:3
    pub empty: bool,  // chip empty frame (1110 id, bc) instead of header .. trailer
    pub flags: u8,    // readout flags (trailer low nibble)
    pub items: Vec<Item>,
    /// zero padding bytes after this chip (only legal after trailer / empty frame)
    pub pad_after: u8,
    /// busy words emitted after the chip (outside header..trailer)
    pub busy_after: u8,
}

#[derive(Clone, Debug, PartialEq, Eq)]
pub struct LaneSpec {
    pub id: u8, // data word id
    pub pad_before: u8,
    pub chips: Vec<ChipSpec>,
    /// fatal APE byte (F4..FC) appended at the end of the lane data
    pub fatal_ape: Option<u8>,
}

pub const APE_WARN: [u8; 3] = [0xF2, 0xFD, 0xFE];
pub const APE_FATAL: [u8; 9] = [0xF4, 0xF5, 0xF6, 0xF7, 0xF8, 0xF9, 0xFA, 0xFB, 0xFC];

impl LaneSpec {
    pub fn bytes(&self) -> Vec<u8> {
        let mut v = vec![0u8; self.pad_before as usize];
        for c in &self.chips {
            if c.empty {
                v.push(0xE0 | (c.id & 0xF));
                v.push(c.bc);
            } else {
                v.push(0xA0 | (c.id & 0xF));
                v.push(c.bc);
                for it in &c.items {
                    match it {
                        Item::Region(r) => v.push(0xC0 | (r & 0x1F)),
                        Item::Short(a, b) => {
                            v.push(0x40 | (a & 0x3F));
                            v.push(*b);
                        }
                        Item::Long(a, b, h) => {
                            v.push(a & 0x3F);
                            v.push(*b);
                            v.push(h & 0x7F);
                        }
                        Item::BusyOn => v.push(0xF0),
                        Item::BusyOff => v.push(0xF1),
                        Item::ApeWarn(x) => v.push(*x),
                    }
                }
                v.push(0xB0 | (c.flags & 0xF));
            }
            for i in 0..c.busy_after {
                v.push(if i % 2 == 0 { 0xF0 } else { 0xF1 });
            }
            v.extend(std::iter::repeat(0u8).take(c.pad_after as usize));
        }
        if let Some(a) = self.fatal_ape {
            v.push(a);
        }
        v
    }
    /// lane bytes cut in 9 byte pieces (last one zero padded)
    pub fn pieces(&self) -> Vec<[u8; 9]> {
        let b = self.bytes();
        let mut out = vec![];
        for ch in b.chunks(9) {
            let mut p = [0u8; 9];
            p[..ch.len()].copy_from_slice(ch);
            out.push(p);
        }
        if out.is_empty() {
            out.push([0u8; 9]);
        }
        out
    }
    pub fn n_trailers(&self) -> u32 {
        self.chips.iter().filter(|c| !c.empty).count() as u32
    }
    pub fn has_long(&self) -> bool {
        self.chips.iter().any(|c| c.items.iter().any(|i| matches!(i, Item::Long(..))))
    }
}

/// hit content generator: arbitrary regions / short / long / busy items.  `rich` produces more.
pub fn gen_items(t: &mut Tape, rich: bool) -> Vec<Item> {
    let n = if rich { t.below(12) } else { t.below(4) };
    let mut v = vec![];
    for _ in 0..n {
        match t.weighted(&[3, 4, 4, 1, 1, 1]) {
            0 => v.push(Item::Region(t.u8() & 0x1F)),
            1 => v.push(Item::Short(t.u8(), t.u8())),
            2 => v.push(Item::Long(t.u8(), t.u8(), t.u8())),
            3 => v.push(Item::BusyOn),
            4 => v.push(Item::BusyOff),
            _ => v.push(Item::ApeWarn(*t.pick(&APE_WARN))),
        }
    }
    v
}

/// Readout-flag counters as documented in the trailer bit table (independent of hit content).
#[derive(Default, Debug, Clone, Copy, PartialEq, Eq)]
pub struct FlagCounts {
    pub chip_trailers_seen: u32,
    pub busy_violations: u32,
    pub data_overrun: u32,
    pub transmission_in_fatal: u32,
    pub flushed_incomplete: u32,
    pub strobe_extended: u32,
    pub busy_transitions: u32,
}

impl FlagCounts {
    pub fn add_trailer(&mut self, flags: u8) {
        self.chip_trailers_seen += 1;
        match flags & 0xF {
            0b1000 => self.busy_violations += 1,
            0b1100 => self.data_overrun += 1,
            0b1110 => self.transmission_in_fatal += 1,
            f => {
                self.flushed_incomplete += ((f & 0b0100) != 0) as u32;
                self.strobe_extended += ((f & 0b0010) != 0) as u32;
                self.busy_transitions += ((f & 0b0001) != 0) as u32;
            }
        }
    }
    pub fn add(&mut self, o: &FlagCounts) {
        self.chip_trailers_seen += o.chip_trailers_seen;
        self.busy_violations += o.busy_violations;
        self.data_overrun += o.data_overrun;
        self.transmission_in_fatal += o.transmission_in_fatal;
        self.flushed_incomplete += o.flushed_incomplete;
        self.strobe_extended += o.strobe_extended;
        self.busy_transitions += o.busy_transitions;
    }
    pub fn add_lane(&mut self, l: &LaneSpec) {
        for c in &l.chips {
            if !c.empty {
                self.add_trailer(c.flags);
            }
        }
    }
}
