//! C18 - input truncated at any byte is handled; the intact prefix is still analysed

use super::common::*;
use crate::cli::{self, ErrMsg, Input, RunSpec};
use crate::engine::*;
use crate::gen::{self, ConfOpts, MutOpts};
use crate::model::*;
use crate::tape::{fnv64, Tape};
use regex::Regex;
use serde_json::json;
use std::sync::{Arc, OnceLock};

#[derive(Clone, Copy, Debug, PartialEq, Eq)]
enum TMode {
    Sanity,
    All,
    SanityIts,
    AllIts,
    AllItsStave,
    ViewRdh,
    ViewData,
}

impl TMode {
    fn args(&self) -> Vec<String> {
        let v: &[&str] = match self {
            TMode::Sanity => &["check", "sanity"],
            TMode::All => &["check", "all"],
            TMode::SanityIts => &["check", "sanity", "its"],
            TMode::AllIts => &["check", "all", "its"],
            TMode::AllItsStave => &["check", "all", "its-stave"],
            TMode::ViewRdh => &["view", "rdh", "-d"],
            TMode::ViewData => &["view", "its-readout-frames-data", "-d"],
        };
        v.iter().map(|s| s.to_string()).collect()
    }
    fn is_view(&self) -> bool {
        matches!(self, TMode::ViewRdh | TMode::ViewData)
    }
    fn name(&self) -> &'static str {
        match self {
            TMode::Sanity => "check sanity",
            TMode::All => "check all",
            TMode::SanityIts => "check sanity its",
            TMode::AllIts => "check all its",
            TMode::AllItsStave => "check all its-stave",
            TMode::ViewRdh => "view rdh",
            TMode::ViewData => "view its-readout-frames-data",
        }
    }
}

fn ending_at(text: &str) -> Option<u64> {
    static RE: OnceLock<Regex> = OnceLock::new();
    let re = RE.get_or_init(|| Regex::new(r"ending at 0x([0-9A-F]+)").unwrap());
    re.captures(text).and_then(|c| u64::from_str_radix(&c[1], 16).ok())
}

/// findings below offset p: error messages (frame messages whose frame ends at/after p removed) and view rows
fn findings_below(stderr: &str, stdout: &str, p: u64, view: bool) -> Vec<String> {
    let mut v = vec![];
    if view {
        for line in cli::strip_ansi(stdout).lines() {
            let l = line.trim_start();
            if let Some((off, _)) = l.split_once(':') {
                if !off.is_empty() && off.chars().all(|c| c.is_ascii_hexdigit()) {
                    if let Ok(o) = u64::from_str_radix(off, 16) {
                        if o < p {
                            v.push(line.trim_end().to_string());
                        }
                    }
                }
            }
        }
        // unknown-id rows of the ITS views are printed on stderr
        for r in cli::parse_log(stderr) {
            if r.level == "ERROR" {
                if let Some((off, _)) = r.text.split_once(':') {
                    if let Ok(o) = u64::from_str_radix(off.trim(), 16) {
                        if o < p {
                            v.push(format!("stderr:{}", r.text));
                        }
                    }
                }
            }
        }
    } else {
        let msgs: Vec<ErrMsg> = cli::error_messages(stderr);
        for m in msgs {
            if m.offset < p {
                if let Some(e) = ending_at(&m.text) {
                    if e >= p {
                        continue;
                    }
                }
                v.push(m.text);
            }
        }
    }
    v
}

fn interesting_cuts(t: &mut Tape, bytes: &[u8], lay: &Layout, n_random: usize, all: bool) -> Vec<usize> {
    let len = bytes.len();
    if all {
        return (0..=len).collect();
    }
    let mut c: Vec<usize> = (0..10.min(len + 1)).collect();
    // all packets of small streams; for long ones the first three, a sample of 14 and the batch boundaries
    let chosen: Vec<usize> = if lay.packets.len() <= 40 {
        (0..lay.packets.len()).collect()
    } else {
        let mut v: Vec<usize> = vec![0, 1, 2, lay.packets.len() - 1];
        for _ in 0..14 {
            v.push(t.below(lay.packets.len()));
        }
        v
    };
    for pa in chosen.iter().map(|i| &lay.packets[*i]) {
        let o = pa.offset as usize;
        for d in [0i64, -1, 1, 8, 63, 64, 65] {
            let x = o as i64 + d;
            if x >= 0 && (x as usize) <= len {
                c.push(x as usize);
            }
        }
        if pa.len > 70 {
            c.push(o + 64 + (pa.len - 64) / 2);
        }
        c.push(o + pa.len - 1);
    }
    for i in (100..lay.packets.len()).step_by(100) {
        let o = lay.packets[i].offset as usize;
        c.extend([o - 1, o, o + 1, o + 70]);
    }
    for _ in 0..n_random {
        c.push(t.below(len + 1));
    }
    c.sort_unstable();
    c.dedup();
    c.retain(|x| *x <= len);
    c
}

fn case_impl(t0: &mut Tape, w: &Worker, exhaustive: bool) -> CaseResult {
    let mut ot = t0.fork(400);
    let mut out = CaseOut::default();
    let big = !exhaustive && ot.chance(1, 8);
    let mut cs = gen::gen_conf_stream(
        t0,
        &ConfOpts {
            max_links: if exhaustive { 2 } else { 4 },
            max_hbfs: if exhaustive { 1 } else { 3 },
            max_triggers: if exhaustive { 2 } else { 4 },
            big_16: if big { 16 } else { 0 },
            barrel: if exhaustive { Some(Barrel::Inner) } else { None },
            ..Default::default()
        },
    );
    // a sixth of the sampled cases: a well-framed stream with arbitrary payloads of up to 10 000 bytes instead (cuts far
    // from the end of a large payload, with the payload loaded or skipped)
    let large_payloads = !exhaustive && ot.chance(1, 6);
    if large_payloads {
        let (fs, _) = gen::gen_frame_stream(t0, &gen::FrameOpts { max_packets: 24, word_payload: false, max_payload: 10_000, valid_layers: true, its_first: true, all_rdh0_valid: true, mostly_large: true, near_max: false });
        cs.stream = fs;
        out.labels.push("stream:large_raw_payloads".into());
    }
    let corrupted = !large_payloads && ot.chance(2, 3);
    if large_payloads {
    } else if corrupted {
        let mut mt = t0.fork(300);
        let n = 1 + mt.below(8);
        gen::mutate_stream(&mut mt, &mut cs.stream, &MutOpts { protect_first: true, keep_framing: true, keep_layout: true }, n, &mut vec![]);
        out.labels.push("stream:corrupted".into());
    } else {
        out.labels.push("stream:conforming".into());
    }
    let (bytes, lay) = cs.stream.encode();
    if exhaustive && bytes.len() > 3072 {
        out.labels.push("skipped:too_large_for_exhaustive".into());
        return Ok(out);
    }
    // modes that load the payload and modes that skip it (seek on a file, read-and-discard on a pipe)
    let mut mode = *ot.pick(&[TMode::Sanity, TMode::All, TMode::SanityIts, TMode::AllIts, TMode::AllItsStave, TMode::ViewRdh, TMode::ViewData]);
    if large_payloads {
        // arbitrary payload bytes do not follow the layout the header announces, so word offsets of different links can
        // coincide and their order is then a matter of scheduling: this class is run in the modes that skip the payload
        mode = *ot.pick(&[TMode::Sanity, TMode::All, TMode::ViewRdh]);
    }
    let stdin = ot.chance(1, 2);
    let rdhs = rdhs_of(&cs.stream, &lay);
    let filter = if ot.chance(1, 3) { Filter::Link(rdhs[ot.below(rdhs.len())].link_id) } else { Filter::None };
    let mut base = mode.args();
    base.extend(filter.args());
    let run = |data: Arc<Vec<u8>>, w: &Worker| {
        let mut args = base.clone();
        let input = if stdin {
            Input::Pipe(data.clone(), 0)
        } else {
            let p = w.write("in.raw", &data);
            args.insert(0, p.display().to_string());
            Input::File(p)
        };
        let mut spec = RunSpec::new(args, input);
        if stdin {
            // now and then the producer on the pipe stalls (in mid-stream or after its first few bytes)
            spec.pause = stall_for(&data, 150);
        }
        let o = cli::run(&w.cli, &spec);
        (spec, o)
    };
    let full_data = Arc::new(bytes.clone());
    let (_fs, full) = run(full_data.clone(), w);
    let mut execs = 1u64;
    if full.timed_out || full.crash_signature().is_some() {
        out.labels.push("skipped:full_run_crash".into());
        return Ok(out);
    }
    if cli::has_fatal(&full.stderr) {
        // a fatal error (e.g. an over-padded payload in a view) stops processing at a schedule-dependent
        // point by design: what is printed after it is not comparable (outside the statement)
        out.excluded.push("full run reports a FATAL error: prefix not comparable".into());
        out.labels.push("skipped:fatal_in_full_run".into());
        return Ok(out);
    }
    let cuts = interesting_cuts(&mut ot, &bytes, &lay, if big { 10 } else { 30 }, exhaustive);
    let mut strictly_inside = 0;
    let mut errors_before_cut = 0;
    for cut in cuts {
        let data = Arc::new(bytes[..cut].to_vec());
        let (spec, o) = run(data.clone(), w);
        execs += 1;
        let detail = |what: &str| {
            json!({"what": what, "cut": cut, "len": bytes.len(), "mode": mode.name(), "stdin": stdin, "filter": format!("{filter:?}"), "cmd": spec.describe(), "out": o.brief(),
                   "full_input": input_detail(&bytes)})
        };
        if o.timed_out {
            return Err(Fail::new("C18:hang", "truncated input: process did not end", detail("hang")));
        }
        if let Some(sig) = o.crash_signature() {
            return Err(Fail::new(format!("C18:{sig}"), "truncated input crashed the tool", detail("crash")));
        }
        // p = start of the incomplete packet (or the cut itself when it falls on a packet boundary)
        let p = lay.packets.iter().find(|pa| (pa.offset as usize) < cut && cut < pa.offset as usize + pa.len).map(|pa| pa.offset).unwrap_or(cut as u64);
        let a = findings_below(&o.stderr, &o.stdout_str(), p, mode.is_view());
        let b = findings_below(&full.stderr, &full.stdout_str(), p, mode.is_view());
        if a != b {
            let i = a.iter().zip(b.iter()).position(|(x, y)| x != y).unwrap_or(a.len().min(b.len()));
            let missing = a.len() < b.len();
            let sig = format!(
                "C18:prefix-findings-differ:{}:{}:{}",
                if mode.is_view() { "view" } else { "check" },
                if stdin { "pipe" } else { "file" },
                if missing { "missing" } else { "extra-or-changed" }
            ) + if filter != Filter::None { ":filter" } else { "" };
            return Err(Fail::new(
                sig,
                format!("findings for complete packets before the cut differ: truncated has {}, full has {} (first difference at {i})", a.len(), b.len()),
                json!({"cut": cut, "p": p, "mode": mode.name(), "stdin": stdin, "filter": format!("{filter:?}"),
                       "truncated_first": a.get(i).map(|s| s.lines().next().unwrap_or("").to_string()), "full_first": b.get(i).map(|s| s.lines().next().unwrap_or("").to_string()),
                       "cmd": spec.describe(), "full_input": input_detail(&bytes)}),
            ));
        }
        if (p as usize) < cut && p > 0 {
            strictly_inside += 1;
            if !b.is_empty() {
                errors_before_cut += 1;
            }
        }
    }
    out.labels.push(format!("mode:{}", mode.name()));
    out.labels.push(if stdin { "src:pipe".into() } else { "src:file".into() });
    out.labels.push(filter.label().into());
    if lay.packets.len() >= 100 {
        out.labels.push("packets>=100".into());
    }
    out.nontrivial = strictly_inside > 0 && (!corrupted || errors_before_cut > 0 || mode.is_view());
    out.fingerprint = fnv64(&bytes) ^ fnv64(format!("{}{stdin}{filter:?}", mode.name()).as_bytes());
    out.execs = execs;
    if w.take_sample() {
        out.sample = Some(json!({"mode": mode.name(), "stdin": stdin, "filter": format!("{filter:?}"), "len": bytes.len(), "packets": lay.packets.len(), "cuts": execs - 1}));
    }
    Ok(out)
}

pub fn build() -> Property {
    Property {
        id: "C18",
        rule: "Streams: conforming or G_mut-corrupted (well-framed) multi-link G_conf streams of 2..250 packets. Cut positions: 0..9, every RDH start -1/+0/+1/+8/+63/+64/+65, payload middle, packet end -1, \
               100-packet batch boundaries, 30 random; thorough adds EVERY cut position 0..len of streams <= 3 kB. Modes {check sanity, check all (payload skipped), check sanity its, check all its, check all its-stave, view rdh, view its-readout-frames-data} \
               x {file, pipe} x {no filter, link filter}. Oracle: terminates by itself without panic/signal; with p = start of the incomplete packet, the error messages (resp. view rows) with offset < p are identical \
               for the truncated and the full input (stave-mode frame messages whose frame ends at/after p are removed from both sides). Non-trivial = a cut strictly inside a packet with a complete packet before it \
               (and for corrupted streams an error before the cut); distinct by stream hash x configuration.",
        assumptions: vec![
            "messages with offset >= p are allowed (they concern the incomplete final packet)".into(),
            "the untruncated run is the reference for the prefix findings (differential, no model)".into(),
        ],
        phases: vec![
            Phase {
                name: "cuts_sampled",
                kind: PhaseKind::Gen { cases: (320, 2400), tape_len: 400 + 64 + 2000 + 4 * 4000 + 14000 + 300, f: Box::new(|t, w| case_impl(t, w, false)) },
                threads: 16,
            },
            Phase {
                name: "cuts_exhaustive_small",
                kind: PhaseKind::Gen { cases: (0, 64), tape_len: 400 + 64 + 2000 + 2 * 4000 + 300, f: Box::new(|t, w| case_impl(t, w, true)) },
                threads: 16,
            },
        ],
    }
}
