//! C17 - early stop is orderly: signals, closed pipes, error cap, fatal errors

use super::common::*;
use crate::cli::{self, Action, Input, RunSpec};
use crate::engine::*;
use crate::gen::{self, ConfOpts};
use crate::model::*;
use crate::tape::{fnv64, Tape};
use serde_json::json;
use std::sync::Arc;
use std::time::Duration;

/// repeat a conforming stream `reps` times, shifting orbits so that it stays conforming
pub fn replicate(stream: &Stream, reps: usize) -> Stream {
    let mut out = Stream {
        links: stream
            .links
            .iter()
            .map(|l| Link {
                packets: vec![],
                barrel: l.barrel,
                lane_ids: l.lane_ids.clone(),
            })
            .collect(),
        order: vec![],
    };
    for r in 0..reps {
        let shift = (r as u32).wrapping_mul(0x10_000);
        for (li, l) in stream.links.iter().enumerate() {
            for p in &l.packets {
                let mut q = p.clone();
                q.rdh.orbit = q.rdh.orbit.wrapping_add(shift);
                for wd in q.words.iter_mut() {
                    if wd[9] == ID_TDH {
                        let o = u32::from_le_bytes([wd[4], wd[5], wd[6], wd[7]]).wrapping_add(shift);
                        wd[4..8].copy_from_slice(&o.to_le_bytes());
                    }
                }
                out.links[li].packets.push(q);
            }
        }
        out.order.extend(stream.order.iter().copied());
    }
    out
}

#[derive(Clone, Copy, Debug, PartialEq, Eq)]
enum StopKind {
    Sigint,
    Sigterm,
    CloseStdout,
    ErrorCap,
    FatalMidstream,
}

#[derive(Clone, Copy, Debug, PartialEq, Eq)]
enum RunMode {
    ViewRdh,
    ViewFrames,
    ViewData,
    WriteStdout,
    WriteFile,
    CheckStatsStdout,
    CheckAllIts,
}

fn case(t0: &mut Tape, w: &Worker) -> CaseResult {
    let mut ot = t0.fork(64);
    let mut out = CaseOut::default();
    let cs = gen::gen_conf_stream(
        t0,
        &ConfOpts {
            max_links: 4,
            max_hbfs: 3,
            big_16: 0,
            ..Default::default()
        },
    );
    let kind = *ot.pick(&[StopKind::Sigint, StopKind::Sigterm, StopKind::CloseStdout, StopKind::CloseStdout, StopKind::ErrorCap, StopKind::FatalMidstream]);
    let base_len = cs.stream.encode().0.len().max(1);
    // 0.1 .. 8 MB (quick tier: up to 2 MB)
    let target = match ot.weighted(&[4, 3, 1]) {
        0 => 100_000 + ot.below(300_000),
        1 => 400_000 + ot.below(1_600_000),
        _ => w.tier.pick(2_000_000, 8_000_000),
    };
    let reps = (target / base_len).clamp(1, 4000);
    // the reader -> analysis queue holds 100 batches of 100 packets: a quarter of the cases use many small (RDH-only)
    // packets so that the reader can run more than 10 000 packets ahead and block on the full queue
    let many_small = ot.chance(1, 4);
    // the other extreme for a reader of stdout that goes away: an output of a few hundred bytes (it stays in the tool's
    // own stdout buffer until the very end)
    let tiny = kind == StopKind::CloseStdout && ot.chance(1, 4);
    let mut stream = if tiny {
        let tmpl = cs.stream.links[0].packets[0].rdh.clone();
        let n = 2 + ot.below(6);
        let packets = (0..n)
            .map(|k| {
                let mut r = tmpl.clone();
                r.orbit = 0x0101_0101u32.wrapping_add(0x0101_0101 * (k as u32 / 2 % 5)); // no byte 0x0A
                r.pages_counter = (k % 2) as u16;
                r.stop_bit = (k % 2) as u8;
                let mut p = Packet::new(r);
                p.fix_sizes();
                p
            })
            .collect();
        out.labels.push("tiny_output".into());
        Stream::single(Link { packets, barrel: Barrel::Inner, lane_ids: vec![] })
    } else if many_small {
        let n_hbf = 6_000 + ot.below(w.tier.pick(6_000, 16_000));
        let mut packets = Vec::with_capacity(n_hbf * 2);
        let tmpl = cs.stream.links[0].packets[0].rdh.clone();
        for h in 0..n_hbf {
            for (page, stop) in [(0u16, 0u8), (1, 1)] {
                let mut r = tmpl.clone();
                r.orbit = tmpl.orbit.wrapping_add(h as u32 + 1);
                r.pages_counter = page;
                r.stop_bit = stop;
                let mut p = Packet::new(r);
                p.fix_sizes();
                packets.push(p);
            }
        }
        Stream::single(Link { packets, barrel: Barrel::Inner, lane_ids: vec![] })
    } else {
        replicate(&cs.stream, reps)
    };
    let mut expect_errors = false;
    match kind {
        StopKind::ErrorCap => {
            // plenty of errors: every 3rd packet gets a bad BC
            for l in stream.links.iter_mut() {
                for (i, p) in l.packets.iter_mut().enumerate() {
                    if i % 3 == 1 {
                        p.rdh.bc_word = 0xFFF;
                    }
                }
            }
            expect_errors = true;
        }
        StopKind::FatalMidstream => {
            let mut li = ot.below(stream.links.len());
            let np = stream.links[li].packets.len();
            let mut pi = 1 + ot.below(np.max(2) - 1);
            // "at any packet index": sometimes the very first packet of the input
            if ot.chance(1, 6) {
                li = stream.order.first().copied().unwrap_or(0);
                pi = 0;
                out.labels.push("fatal:first_packet".into());
            }
            let np = stream.links[li].packets.len();
            if pi < np {
                stream.links[li].packets[pi].rdh.offset_next = *ot.pick(&[0u16, 63, 20_000]);
            }
        }
        _ => {}
    }
    let (bytes, lay) = stream.encode();
    let rdhs = rdhs_of(&stream, &lay);
    let mode = match kind {
        StopKind::ErrorCap => RunMode::CheckAllIts,
        StopKind::CloseStdout if tiny => RunMode::WriteStdout,
        StopKind::CloseStdout => *ot.pick(&[RunMode::ViewRdh, RunMode::ViewFrames, RunMode::ViewData, RunMode::WriteStdout, RunMode::CheckStatsStdout]),
        _ => *ot.pick(&[RunMode::ViewRdh, RunMode::ViewFrames, RunMode::ViewData, RunMode::WriteStdout, RunMode::WriteFile, RunMode::CheckStatsStdout, RunMode::CheckAllIts]),
    };
    let filter = Filter::Link(rdhs[ot.below(rdhs.len())].link_id);
    let out_file = w.path("out.raw");
    let mut args: Vec<String> = match mode {
        RunMode::ViewRdh => vec!["view".into(), "rdh".into()],
        RunMode::ViewFrames => vec!["view".into(), "its-readout-frames".into()],
        RunMode::ViewData => vec!["view".into(), "its-readout-frames-data".into()],
        RunMode::WriteStdout => {
            let mut a = filter.args();
            if ot.chance(1, 2) {
                a.extend(["-o".to_string(), "stdout".to_string()]);
            }
            a
        }
        RunMode::WriteFile => {
            let mut a = filter.args();
            a.extend(["-o".to_string(), out_file.display().to_string()]);
            a
        }
        RunMode::CheckStatsStdout => vec!["check".into(), "all".into(), "its".into(), "-S".into(), "stdout".into(), "-D".into(), if ot.chance(1, 2) { "json".into() } else { "toml".into() }],
        RunMode::CheckAllIts => vec!["check".into(), "all".into(), "its".into()],
    };
    // a filter plus an output destination next to a check or a view (the tool ignores the output then): a third of those runs
    if matches!(mode, RunMode::ViewRdh | RunMode::ViewFrames | RunMode::ViewData | RunMode::CheckAllIts) && ot.chance(1, 3) {
        args.extend(filter.args());
        args.extend(["-o".to_string(), w.path("ignored_out.raw").display().to_string()]);
        out.labels.push("opt:filter+ignored_output".into());
    }
    let e_code = 1 + ot.below(255);
    if ot.chance(1, 2) {
        args.push("-E".into());
        args.push(e_code.to_string());
    }
    if kind == StopKind::ErrorCap {
        args.push("-e".into());
        args.push((1 + ot.below(40)).to_string());
    }
    if matches!(mode, RunMode::ViewRdh | RunMode::ViewFrames | RunMode::ViewData) && ot.chance(1, 2) {
        args.push("-d".into());
    }
    let stdin = ot.chance(1, 2);
    let perturb = ot.below(6);
    let seed = ot.u32();
    let env: Vec<(String, String)> = match perturb {
        0 | 1 => vec![],
        2 => vec![("FASTPASTA_VERIF_SCHED".into(), format!("{seed},300,200"))],
        3 => vec![("FASTPASTA_VERIF_SCHED".into(), format!("{seed},100,50,slow=Validator:100"))],
        4 => vec![("FASTPASTA_VERIF_SCHED".into(), format!("{seed},100,50,slow=stats_thread:20"))],
        _ => vec![("FASTPASTA_VERIF_SCHED".into(), format!("{seed},100,50,slow=Writer:2000"))],
    };
    let data = Arc::new(bytes);
    let file = w.write("in.raw", &data);
    let mk_spec = |action: Action| {
        let mut a = args.clone();
        let input = if stdin {
            Input::Pipe(data.clone(), 65536)
        } else {
            a.insert(0, file.display().to_string());
            Input::File(file.clone())
        };
        let mut s = RunSpec::new(a, input);
        s.env = env.clone();
        s.action = action;
        s.timeout = Duration::from_secs(if perturb >= 2 { 120 } else { 40 });
        s
    };
    // baseline (no stop) to measure run time and stdout volume; also exercises the perturbed normal path
    let mut execs = 0u64;
    let needs_baseline = matches!(kind, StopKind::Sigint | StopKind::Sigterm | StopKind::CloseStdout);
    let (base_wall_us, base_stdout) = if needs_baseline {
        let b = cli::run(&w.cli, &mk_spec(Action::None));
        execs += 1;
        if b.timed_out {
            // cli::run believed the expiry only after two longer re-runs: a run without any stop request that does not end
            if data.len() <= 16 << 20 {
                let sp = mk_spec(Action::None);
                return Err(Fail::new(
                    format!("C17:hang:NoStopRequest:{mode:?}"),
                    "process does not end on its own (no stop condition was applied yet)",
                    json!({"what": "hang", "mode": format!("{mode:?}"), "stdin": stdin, "perturbation": env, "input_len": data.len(), "cmd": sp.describe(), "note": "input = generated stream; regenerate from the tape"}),
                ));
            }
            out.labels.push("inconclusive:baseline_timeout".into());
            return Ok(out);
        }
        (b.wall.as_micros() as u64, b.stdout.len())
    } else {
        (0, 0)
    };
    let action = match kind {
        StopKind::Sigint | StopKind::Sigterm => {
            let sig = if kind == StopKind::Sigint { libc::SIGINT } else { libc::SIGTERM };
            let frac = ot.below(1200) as u64; // 0 .. 1.2 x run time
            Action::Signal(sig, base_wall_us * frac / 1000)
        }
        StopKind::CloseStdout => {
            let n = match ot.below(6) {
                0 => 0,
                1 => 1,
                2 => 100,
                3 => 4096,
                4 => 65536,
                _ => ot.below(base_stdout.max(1)),
            };
            Action::CloseStdoutAfter(n.min(base_stdout.saturating_sub(1)))
        }
        _ => Action::None,
    };
    let spec = mk_spec(action.clone());
    let o = cli::run(&w.cli, &spec);
    execs += 1;
    let detail = |what: &str| {
        json!({"what": what, "stop": format!("{kind:?}"), "mode": format!("{mode:?}"), "action": format!("{action:?}"), "stdin": stdin, "perturbation": env, "input_len": data.len(),
               "cmd": spec.describe(), "out": o.brief(), "note": "input = generated conforming stream replicated; regenerate from the tape"})
    };
    let sig_part = format!("{kind:?}:{mode:?}");
    if o.timed_out {
        // hang rule: cli::run reports an expiry only after re-executing the run twice with longer limits (4x, 12x; at
        // least 60 s and 180 s), i.e. the process outlived its limit three times
        if data.len() <= 16 << 20 {
            return Err(Fail::new(format!("C17:hang:{sig_part}"), "process does not end after the stop condition (deadlock?)", detail("hang")));
        }
        out.labels.push("inconclusive:timeout_not_reproduced".into());
        return Ok(out);
    }
    // A signal that arrives before the tool has installed its handler (first instants of the process, no worker
    // thread exists yet) terminates it through the default disposition: ordinary process semantics, nothing to tidy up.
    let killed_before_handler = matches!(action, Action::Signal(s, _) if o.signal == Some(s)) && !o.stderr.contains("panicked at") && !o.stderr.contains("received, stopping gracefully");
    if killed_before_handler {
        out.labels.push("signal_before_handler_installed".into());
        out.excluded.push("signal delivered before the handler was installed (default disposition)".into());
        out.execs = execs;
        return Ok(out);
    }
    if let Some(sig) = o.crash_signature() {
        let short: String = sig.chars().take(90).collect();
        return Err(Fail::new(format!("C17:{short}"), format!("early stop is not orderly: {}", o.panic_line().unwrap_or(sig.clone())), detail("panic / signal")));
    }
    let mut allowed = vec![0, 1];
    if args.contains(&"-E".to_string()) {
        allowed.push(e_code as i32);
    }
    if !o.code.map(|c| allowed.contains(&c)).unwrap_or(false) {
        return Err(Fail::new(format!("C17:exit-status:{sig_part}"), format!("exit status {:?}", o.code), detail("exit status")));
    }
    // a filtered output file written up to the stop consists of whole packets and is a prefix of the expected output
    if mode == RunMode::WriteFile {
        let got = std::fs::read(&out_file).unwrap_or_default();
        let mut expected = vec![];
        for (i, pa) in lay.packets.iter().enumerate() {
            if filter.matches(&rdhs[i]) {
                expected.extend_from_slice(&data[pa.offset as usize..pa.offset as usize + pa.len]);
            }
        }
        if !expected.starts_with(&got) {
            return Err(Fail::new("C17:partial-output-not-prefix", "the partial output file is not a prefix of the expected filtered output", detail("output file")));
        }
        let (wk, end) = walk(&got);
        if end != WalkEnd::CleanEof && kind != StopKind::FatalMidstream {
            return Err(Fail::new("C17:partial-output-not-whole-packets", format!("the partial output file does not consist of whole packets ({} packets then {end:?})", wk.len()), detail("output file")));
        }
        let _ = std::fs::remove_file(&out_file);
    }
    let landed = match kind {
        StopKind::Sigint | StopKind::Sigterm | StopKind::CloseStdout => o.action_landed,
        StopKind::ErrorCap => expect_errors,
        StopKind::FatalMidstream => cli::has_fatal(&o.stderr),
    };
    out.labels.push(format!("stop:{kind:?}"));
    out.labels.push(format!("mode:{mode:?}"));
    out.labels.push(if stdin { "src:pipe".into() } else { "src:file".into() });
    out.labels.push(format!("perturbation:{}", ["off", "off", "random", "slow_validator", "slow_collector", "slow_writer"][perturb]));
    out.labels.push(if landed { "stop_landed_midrun".into() } else { "stop_after_exit_or_not_reached".into() });
    if many_small {
        out.labels.push("many_small_packets(>10000)".into());
    }
    out.labels.push(format!("size:{}", if data.len() < 400_000 { "<0.4MB" } else if data.len() < 2_000_000 { "0.4-2MB" } else { ">=2MB" }));
    out.nontrivial = landed;
    out.fingerprint = fnv64(&data[..data.len().min(4096)]) ^ fnv64(format!("{kind:?}{mode:?}{action:?}{stdin}{perturb}").as_bytes());
    out.execs = execs;
    if w.take_sample() {
        out.sample = Some(detail("sample"));
    }
    Ok(out)
}

/// The stop request is one shared flag (signal handler, error cap, fatal message all raise it).  Model of its final
/// value for any message history: raised iff a stop was requested from outside, or the error cap was reached, or a
/// fatal message arrived.  In particular a request is never withdrawn by later messages, and nothing else raises it.
fn stop_flag_case(t: &mut Tape, w: &Worker) -> CaseResult {
    use fastpasta::config::test_util::MockConfig;
    use fastpasta::config::view::ViewCommands;
    use fastpasta::stats::StatType;
    use std::sync::atomic::Ordering;
    use std::sync::{Mutex, OnceLock};
    crate::inproc::init_global_config();
    static CFGS: OnceLock<Mutex<std::collections::HashMap<u32, &'static MockConfig>>> = OnceLock::new();
    let cap = *t.pick(&[0u32, 0, 1, 2, 3, 5, 8, 13, 4_000_000_000]);
    let cfg: &'static MockConfig = {
        let mut m = CFGS.get_or_init(Default::default).lock().unwrap();
        *m.entry(cap).or_insert_with(|| {
            let mut c = MockConfig::new();
            c.max_tolerate_errors = cap;
            c.view = Some(ViewCommands::Rdh); // no report on stdout
            c.mute_errors = true;
            crate::inproc::leak_cfg(c)
        })
    };
    let n = t.below(40);
    let request_at: Option<usize> = if t.chance(1, 2) { Some(t.below(n + 1)) } else { None };
    let (handle, tx, stop, _any) = fastpasta::controller::init_controller(cfg);
    let mut errors_counted = 0u64;
    let mut fatal = false;
    let mut history: Vec<String> = vec![];
    for i in 0..n {
        if request_at == Some(i) {
            stop.store(true, Ordering::SeqCst);
            history.push("STOP-REQUEST".into());
        }
        let msg = match t.weighted(&[10, 4, 3, 2, 1]) {
            0 => {
                if !fatal {
                    errors_counted += 1;
                }
                history.push("Error".into());
                StatType::Error(format!("{:#X}: [E10] RDH sanity check failed: generated", 64 * i).into())
            }
            1 => {
                history.push("RDHSeen".into());
                StatType::RDHSeen(1)
            }
            2 => {
                history.push("HBFsSeen".into());
                StatType::HBFsSeen(1)
            }
            3 => {
                history.push("PayloadSize".into());
                StatType::PayloadSize(t.below(9000) as u32)
            }
            _ => {
                if t.chance(1, 6) {
                    fatal = true;
                    history.push("Fatal".into());
                    StatType::Fatal("generated fatal".into())
                } else {
                    history.push("LinksObserved".into());
                    StatType::LinksObserved(t.below(12) as u8)
                }
            }
        };
        if tx.send(msg).is_err() {
            break;
        }
    }
    if request_at == Some(n) {
        stop.store(true, Ordering::SeqCst);
        history.push("STOP-REQUEST".into());
    }
    drop(tx);
    if handle.join().is_err() {
        return Err(Fail::new("C17:controller-panic", "the statistics controller thread panicked", json!({"cap": cap, "history": history})));
    }
    let got = stop.load(Ordering::SeqCst);
    let cap_reached = cap > 0 && errors_counted >= cap as u64;
    let want = request_at.is_some() || cap_reached || fatal;
    if got != want {
        let what = if want { if request_at.is_some() && !cap_reached && !fatal { "stop-request-withdrawn" } else { "stop-not-raised" } } else { "spurious-stop" };
        return Err(Fail::new(
            format!("C17:stop-flag:{what}"),
            format!("stop flag after all messages = {got}, expected {want} (cap {cap}, {errors_counted} errors counted, fatal {fatal}, outside request {:?})", request_at),
            json!({"cap": cap, "history": history, "request_at": request_at}),
        ));
    }
    let mut out = CaseOut::default();
    out.nontrivial = request_at.map(|k| k < n).unwrap_or(false) && history.iter().skip(request_at.unwrap_or(0)).any(|h| h == "Error");
    out.fingerprint = fnv64(history.join(",").as_bytes()) ^ cap as u64;
    out.labels.push(format!("flag:{}", if want { "raised" } else { "clear" }));
    if request_at.is_some() {
        out.labels.push("flag:outside_request".into());
    }
    if cap_reached {
        out.labels.push("flag:cap_reached".into());
    }
    if fatal {
        out.labels.push("flag:fatal".into());
    }
    if out.nontrivial {
        out.labels.push("flag:errors_after_request".into());
    }
    if w.take_sample() {
        out.sample = Some(json!({"kind": "stop_flag", "cap": cap, "history": history, "flag": got}));
    }
    Ok(out)
}

/// The error cap is reached (the controller raises the stop flag) while the producer on stdin has not closed the pipe
/// yet; then ONE termination signal arrives.  A single signal is a request for an orderly stop, whatever raised the
/// flag before: the run still ends by itself with the contract's exit status, never through the forced-exit path.
fn cap_then_signal_case(t: &mut Tape, w: &Worker) -> CaseResult {
    let mut out = CaseOut::default();
    let n_hbf = 50 + t.below(300);
    let every = 1 + t.below(3);
    let mut packets = vec![];
    for h in 0..n_hbf {
        for (page, stop) in [(0u16, 0u8), (1, 1)] {
            let mut r = Rdh { link_id: 4, fee_id: fee_id(2, 1, 7), orbit: 500 + h as u32, pages_counter: page, stop_bit: stop, ..Rdh::default() };
            if (h * 2 + page as usize) % every == 0 && h > 0 {
                r.bc_word = 0xFFF;
            }
            let mut p = Packet::new(r);
            p.fix_sizes();
            packets.push(p);
        }
    }
    let stream = Stream::single(Link { packets, barrel: Barrel::Inner, lane_ids: vec![] });
    let (bytes, _) = stream.encode();
    let cap = 1 + t.below(20);
    let e_code = 2 + t.below(254);
    let mut args: Vec<String> = if t.chance(1, 2) { vec!["check".into(), "all".into()] } else { vec!["check".into(), "sanity".into()] };
    args.extend(["-e".to_string(), cap.to_string(), "-E".to_string(), e_code.to_string()]);
    if t.chance(1, 3) {
        args.push("-m".into());
    }
    let sig = if t.chance(1, 2) { libc::SIGINT } else { libc::SIGTERM };
    let delay_us = 400_000 + t.below(600_000) as u64;
    let mut spec = RunSpec::new(args, Input::Pipe(Arc::new(bytes), 0));
    spec.hold_stdin = Duration::from_millis(1800);
    spec.action = Action::Signal(sig, delay_us);
    spec.timeout = Duration::from_secs(40);
    let o = cli::run(&w.cli, &spec);
    out.execs = 1;
    let detail = json!({"cmd": spec.describe(), "cap": cap, "signal": sig, "delay_us": delay_us, "stdin_held_open_ms": 1800, "out": o.brief()});
    if o.timed_out {
        out.labels.push("inconclusive:timeout".into());
        return Ok(out);
    }
    if matches!(spec.action, Action::Signal(s, _) if o.signal == Some(s)) && !o.stderr.contains("panicked at") {
        out.labels.push("signal_before_handler_installed".into());
        return Ok(out);
    }
    if let Some(sg) = o.crash_signature() {
        let short: String = sg.chars().take(90).collect();
        return Err(Fail::new(format!("C17:cap-then-signal:{short}"), "a single signal after the error cap crashed the tool", detail));
    }
    if o.code != Some(0) && o.code != Some(e_code as i32) {
        return Err(Fail::new(
            "C17:cap-then-signal:exit-status",
            format!("exit status {:?} after the error cap and ONE signal; an orderly stop gives 0 or the configured {e_code}", o.code),
            detail,
        ));
    }
    out.nontrivial = o.action_landed;
    out.fingerprint = fnv64(format!("{n_hbf}{every}{cap}{sig}{delay_us}").as_bytes());
    out.labels.push(if o.action_landed { "cap_then_signal:landed".into() } else { "cap_then_signal:after_exit".into() });
    if w.take_sample() {
        out.sample = Some(detail);
    }
    Ok(out)
}

pub fn build() -> Property {
    Property {
        id: "C17",
        rule: "Fault schedules: stop kind {SIGINT, SIGTERM at a delay drawn from [0, 1.2 x measured run time]; stdout closed after N bytes (0, 1, 100, 4096, 65536, random); error cap -e N with errors on every third packet; \
               fatal framing error at a random packet} x mode {three views +-d, filtered write to stdout / file, check with statistics to stdout, check all its; a third of the view / check runs with a filter and an (ignored) -o destination} x source {file, pipe fed in 64 KiB chunks} x \
               perturbation {off, random, slow validator, slow collector, slow writer} x input size 0.1..8 MB (conforming G_conf stream replicated with shifted orbits so that queues fill; for a closed stdout also outputs of 128..448 bytes). \
               Oracle: the process exits by itself within the watchdog (all threads joined), no panic text, no terminating signal, exit in {0,1,n}; a partial -o file is a prefix of the expected filtered output made of whole packets. \
               Non-trivial = the stop provably landed mid-run (process alive when signalled / pipe closed before EOF of the baseline output / cap below the error count / fatal message seen). \
               Phase cap_then_signal: errors on stdin with a small error cap, the pipe held open for 1.8 s after the data, one SIGINT / SIGTERM after 0.4 .. 1.0 s: the run ends by itself with exit 0 or n (never the forced-exit path). Further phase (in-process, the statistics controller alone): message histories of up to 40 statistics messages (errors, counters, fatal) x error cap {none, 1..13, huge} x an outside stop request raised on the shared flag at any position; \
               oracle: final flag = outside request OR cap reached OR fatal seen (a stop request is never withdrawn, nothing else raises it), the controller thread ends without panic.",
        assumptions: vec![
            "timing is sampled, not enumerated; a replay pins input, command, delay fraction and perturbation seed".into(),
            "a stalled producer on stdin (no data, no EOF) is outside the statement".into(),
            "a watchdog expiry counts only when reproduced three times (60 s, 240 s under perturbation)".into(),
        ],
        phases: vec![
            Phase {
                name: "fault_schedules",
                kind: PhaseKind::Gen { cases: (1000, 8000), tape_len: 64 + 64 + 2000 + 4 * 4000, f: Box::new(case) },
                threads: 16,
            },
            Phase { name: "cap_then_signal", kind: PhaseKind::Gen { cases: (32, 300), tape_len: 16, f: Box::new(cap_then_signal_case) }, threads: 16 },
            Phase { name: "stop_flag_histories", kind: PhaseKind::Gen { cases: (4000, 60000), tape_len: 200, f: Box::new(stop_flag_case) }, threads: 8 },
        ],
    }
}
