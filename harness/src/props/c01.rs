//! C01 - conforming data is accepted by every check mode (no false alarms)

use super::common::*;
use crate::cli;
use crate::engine::*;
use crate::gen::{self, ConfOpts};
use crate::inproc::{self, ALL_MODES};
use crate::tape::{fnv64, Tape};
use serde_json::json;

fn nontrivial(labels: &[String], n_packets_with_payload: usize) -> bool {
    n_packets_with_payload >= 2
        && labels.iter().any(|l| {
            matches!(
                l.as_str(),
                "interleave:round_robin" | "interleave:random" | "continuation" | "nodata_run>=2" | "cdw" | "barrel:ML" | "barrel:OL"
                    | "packets:=100" | "packets:101-199" | "packets:=200" | "packets:>200" | "hbf_pages:3" | "hbf_pages:4" | "hbf_pages:5"
            ) || l.starts_with("pad:1") && l.len() == 6
        })
}

fn inproc_case(t: &mut Tape, _w: &Worker) -> CaseResult {
    let cs = gen::gen_conf_stream(t, &ConfOpts { allow_fatal_lanes: true, ..Default::default() });
    let (bytes, lay) = cs.stream.encode();
    let mut out = CaseOut::default();
    // every link alone through one validator, in all five modes
    for (li, _link) in cs.stream.links.iter().enumerate() {
        let pk: Vec<(Vec<u8>, Vec<u8>, u64)> = lay
            .packets
            .iter()
            .enumerate()
            .filter(|(_, pa)| pa.link == li)
            .map(|(gi, pa)| {
                let p = cs.stream.packet(&lay, gi);
                (p.rdh.encode().to_vec(), p.payload(), pa.offset)
            })
            .collect();
        for mode in ALL_MODES {
            let cfg = inproc::mock_cfg(mode, false);
            let pk2 = pk.clone();
            let res = inproc::catch(move || inproc::link_pass(cfg, &pk2));
            match res {
                Err(p) => {
                    return Err(Fail::new(
                        format!("inproc-panic:{}", p.chars().take(40).collect::<String>()),
                        format!("panic in {} on conforming data: {p}", mode.name()),
                        json!({"mode": mode.name(), "link": li, "stream": stream_summary(&cs.stream, &bytes), "input": input_detail(&bytes)}),
                    ))
                }
                Ok(r) => {
                    if !r.errors.is_empty() || !r.fatal.is_empty() {
                        let code = cli::parse_err_msg(&r.errors.first().cloned().unwrap_or_default())
                            .map(|e| e.codes.join("+"))
                            .unwrap_or_default();
                        return Err(Fail::new(
                            format!("C01:false-alarm:inproc:{}:E{}", mode.name(), code),
                            format!("{} reported {} error(s) on conforming data", mode.name(), r.errors.len()),
                            json!({"mode": mode.name(), "link": li, "errors": r.errors.iter().take(5).collect::<Vec<_>>(), "fatal": r.fatal,
                                   "stream": stream_summary(&cs.stream, &bytes), "input": input_detail(&bytes)}),
                        ));
                    }
                }
            }
        }
    }
    let with_payload = lay.packets.iter().filter(|p| p.len > 64).count();
    out.nontrivial = nontrivial(&cs.labels, with_payload);
    out.fingerprint = fnv64(&bytes);
    out.labels = cs.labels;
    if _w.take_sample() {
        out.sample = Some(json!({"kind": "inproc", "stream": stream_summary(&cs.stream, &bytes)}));
    }
    Ok(out)
}

fn cli_case(t0: &mut Tape, w: &Worker) -> CaseResult {
    let mut ot = t0.fork(220); // options come from their own tape region
    let mut cs = gen::gen_conf_stream(t0, &ConfOpts { allow_fatal_lanes: true, ..Default::default() });
    let t = &mut ot;
    // some streams are padded to an exact multiple of the 100-packet batch
    match t.below(8) {
        6 => {
            if gen::pad_to_packet_count(&mut cs, 100) {
                cs.labels.push("packets:=100".into());
                cs.labels.push("packets:multiple_of_100".into());
            }
        }
        7 => {
            if gen::pad_to_packet_count(&mut cs, 200) {
                cs.labels.push("packets:=200".into());
                cs.labels.push("packets:multiple_of_100".into());
            }
        }
        _ => {}
    }
    let (bytes, lay) = cs.stream.encode();
    let mut case = CliCase::new(w, bytes.clone());
    let mut out = CaseOut::default();
    let e_code = 1 + t.below(255);
    for mode in ALL_MODES {
        // two of the four option variants per mode
        let v1 = t.below(4);
        let v2 = (v1 + 1 + t.below(3)) % 4;
        for variant in [v1, v2] {
            let stdin = t.chance(1, 2);
            let toml_fmt = t.chance(1, 3);
            let mut args = mode.args();
            let mute = variant & 1 == 1;
            let with_e = variant & 2 == 2;
            if mute {
                args.push("-m".into());
            }
            if with_e {
                args.push("-E".into());
                args.push(e_code.to_string());
            }
            let stats_path = w.path(if toml_fmt { "stats.toml" } else { "stats.json" });
            args.extend(stats_args(&stats_path, toml_fmt));
            let (extra, extra_labels) = neutral_extras(t, w, &cs.stream, lay.packets.len());
            args.extend(extra);
            out.labels.extend(extra_labels);
            let (spec, o) = case.run(args, stdin);
            let detail = |what: &str| {
                json!({"what": what, "mode": mode.name(), "cmd": spec.describe(), "out": o.brief(),
                       "stream": stream_summary(&cs.stream, &bytes), "input": input_detail(&bytes)})
            };
            if let Some(f) = crash_check(&spec, &o, &bytes, &[0, e_code as i32]) {
                return Err(Fail::new(f.signature, f.message, detail("crash / hang / unexpected exit status")));
            }
            let recs = cli::parse_log(&o.stderr);
            if let Some(r) = recs.iter().find(|r| r.level == "ERROR") {
                let code = cli::parse_err_msg(&r.text).map(|e| e.codes.join("+")).unwrap_or_default();
                return Err(Fail::new(
                    format!("C01:false-alarm:{}:E{}", mode.name(), code),
                    format!("error message printed on conforming data: {}", r.text.lines().next().unwrap_or("")),
                    detail("error record on stderr"),
                ));
            }
            if o.code != Some(0) {
                return Err(Fail::new(
                    format!("C01:nonzero-exit:{}", mode.name()),
                    format!("exit status {:?} on conforming data", o.code),
                    detail("exit status"),
                ));
            }
            let Some(st) = read_stats(&stats_path, toml_fmt) else {
                return Err(Fail::new("C01:no-stats-file", "statistics file missing or unparsable", detail("stats file")));
            };
            let es = &st["error_stats"];
            let tot = es["total_errors"].as_u64();
            let n_rep = es["reported_errors"].as_array().map(|a| a.len()).unwrap_or(0);
            if tot != Some(0) || n_rep != 0 || !es["fatal_error"].is_null() {
                return Err(Fail::new(
                    format!("C01:stats-errors:{}", mode.name()),
                    "statistics file lists errors for conforming data",
                    detail("stats file content"),
                ));
            }
            let rows = cli::parse_report(&o.stdout_str());
            if cli::report_value(&rows, "Total Errors").as_deref() != Some("0") {
                return Err(Fail::new(
                    format!("C01:report-errors:{}", mode.name()),
                    "report does not show `Total Errors 0`",
                    detail("report"),
                ));
            }
            out.labels.push(format!("opt:{}{}", if mute { "m" } else { "-" }, if with_e { "E" } else { "-" }));
            out.labels.push(if stdin { "src:stdin".into() } else { "src:file".into() });
        }
    }
    let with_payload = lay.packets.iter().filter(|p| p.len > 64).count();
    out.nontrivial = nontrivial(&cs.labels, with_payload);
    out.fingerprint = fnv64(&bytes);
    out.labels.extend(cs.labels);
    out.labels.sort();
    out.labels.dedup();
    out.execs = case.execs;
    if w.take_sample() {
        out.sample = Some(json!({"kind": "cli", "stream": stream_summary(&cs.stream, &bytes), "modes": 5, "runs": case.execs}));
    }
    Ok(out)
}

pub fn build() -> Property {
    Property {
        id: "C01",
        rule: "G_conf streams generated from the protocol grammar (tape-driven, proptest); every stream is run through all five check modes \
               (in-process one validator per link, and the real CLI with two of {-, -m, -E n, -m -E n}, file or stdin, JSON/TOML stats) plus options that must not change the findings (-v 0/2/3, -d, -e 0, a custom-checks file whose keys are absent or agree with the data). \
               Oracle: zero errors everywhere, exit 0. Non-trivial = >=2 packets with payload and one of {interleaved links, HBF >= 3 pages, continuation, \
               no-data run >= 2, CDW, ML/OL frames, padding >= 10, >= 100 packets}; distinct by hash of the encoded bytes.",
        assumptions: vec![
            "conformance means conformance to the documented protocol as encoded in the G_conf grammar (DESIGN.md 2.5)".into(),
            "release profile of the CLI without LTO; no debug assertions".into(),
        ],
        phases: vec![
            Phase {
                name: "inproc",
                kind: PhaseKind::Gen {
                    cases: (20000, 200000),
                    tape_len: gen::CONF_TAPE_LEN,
                    f: Box::new(inproc_case),
                },
                threads: 16,
            },
            Phase {
                name: "cli",
                kind: PhaseKind::Gen {
                    cases: (2400, 12000),
                    tape_len: gen::CONF_TAPE_LEN + 220,
                    f: Box::new(cli_case),
                },
                threads: 16,
            },
        ],
    }
}
