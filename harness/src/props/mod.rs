pub mod common;
pub mod c01;
pub mod c03;
pub mod c04;

use crate::engine::Property;

pub const ALL_IDS: &[&str] = &["C01", "C03", "C04"];

pub fn build(id: &str) -> Option<Property> {
    match id {
        "C01" => Some(c01::build()),
        "C03" => Some(c03::build()),
        "C04" => Some(c04::build()),
        _ => None,
    }
}
