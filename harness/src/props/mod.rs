pub mod common;
pub mod c01;

use crate::engine::Property;

pub const ALL_IDS: &[&str] = &["C01"];

pub fn build(id: &str) -> Option<Property> {
    match id {
        "C01" => Some(c01::build()),
        _ => None,
    }
}
