pub mod common;
pub mod c01;
pub mod c02;
pub mod c03;
pub mod c04;
pub mod c05;
pub mod c06;
pub mod c07;
pub mod c08;
pub mod c09;
pub mod c10;
pub mod c11;
pub mod c12;
pub mod c13;
pub mod c14;
pub mod c15;
pub mod c16;
pub mod c17;
pub mod c18;
pub mod c19;
pub mod c20;

use crate::engine::Property;

pub const ALL_IDS: &[&str] = &["C01", "C02", "C03", "C04", "C05", "C06", "C07", "C08", "C09", "C10", "C11", "C12", "C13", "C14", "C15", "C16", "C17", "C18", "C19", "C20"];

pub fn build(id: &str) -> Option<Property> {
    match id {
        "C01" => Some(c01::build()),
        "C02" => Some(c02::build()),
        "C03" => Some(c03::build()),
        "C04" => Some(c04::build()),
        "C05" => Some(c05::build()),
        "C06" => Some(c06::build()),
        "C07" => Some(c07::build()),
        "C08" => Some(c08::build()),
        "C09" => Some(c09::build()),
        "C10" => Some(c10::build()),
        "C11" => Some(c11::build()),
        "C12" => Some(c12::build()),
        "C13" => Some(c13::build_property()),
        "C14" => Some(c14::build()),
        "C15" => Some(c15::build()),
        "C16" => Some(c16::build()),
        "C17" => Some(c17::build()),
        "C18" => Some(c18::build()),
        "C19" => Some(c19::build()),
        "C20" => Some(c20::build()),
        _ => None,
    }
}

// ------------------------------------------------------------------------------------------------
// coverage-guided campaigns of the thorough tiers
// ------------------------------------------------------------------------------------------------
use crate::engine::FuzzSpec;
use std::path::Path;

fn sig_generic(text: &str) -> String {
    // panic@<file>:"<message prefix>"  (same shape as CLI crash signatures)
    if let Some(i) = text.find("panicked at ") {
        let rest = &text[i + 12..];
        let loc = rest.lines().next().unwrap_or("");
        let file = loc.split(':').next().unwrap_or("").trim();
        let file = file.rsplit("/src/").next().unwrap_or(file);
        let msg: String = rest.lines().nth(1).unwrap_or("").chars().take(48).collect();
        let msg: String = msg.chars().map(|c| if c.is_ascii_digit() { '#' } else { c }).collect();
        return format!("fuzz:panic@{file}:\"{msg}\"");
    }
    format!("fuzz:{}", text.lines().next().unwrap_or("crash").chars().take(80).collect::<String>())
}

fn corpus_pipeline(dir: &Path, seed: u64) {
    use crate::gen::{self, ConfOpts, MutOpts};
    use crate::tape::{mix, Tape};
    // repository files x 5 modes
    if let Ok(rd) = std::fs::read_dir("/repo/tests/test-data") {
        for e in rd.flatten() {
            if let Ok(b) = std::fs::read(e.path()) {
                if b.len() < 30_000 {
                    for m in 0..5u8 {
                        let mut v = vec![m];
                        v.extend_from_slice(&b);
                        let _ = std::fs::write(dir.join(format!("repo_{}_{m}", e.file_name().to_string_lossy())), v);
                    }
                }
            }
        }
    }
    // generated conforming and mutated streams
    for i in 0..60u64 {
        let mut x = mix(seed ^ mix(i));
        let tape: Vec<u16> = (0..gen::CONF_TAPE_LEN).map(|_| { x = mix(x); x as u16 }).collect();
        let mut t = Tape::new(&tape);
        let mut cs = gen::gen_conf_stream(&mut t, &ConfOpts { max_links: 3, max_hbfs: 2, big_16: 0, ..Default::default() });
        if i % 2 == 1 {
            let mut mt = t.fork(200);
            gen::mutate_stream(&mut mt, &mut cs.stream, &MutOpts { protect_first: true, keep_framing: true, keep_layout: true }, 3, &mut vec![]);
        }
        let (b, _) = cs.stream.encode();
        if b.len() < 30_000 {
            let mut v = vec![(i % 5) as u8];
            v.extend_from_slice(&b);
            let _ = std::fs::write(dir.join(format!("gen_{i}")), v);
        }
    }
}

fn corpus_views(dir: &Path, seed: u64) {
    // same seeds as the pipeline target; the first byte selects the view there as well
    corpus_pipeline(dir, seed);
}

fn corpus_small(dir: &Path, _seed: u64) {
    use crate::model::*;
    let words = [ihw(7), tdh(&TdhF { trigger_type: 1, internal: true, no_data: false, continuation: false, bc: 1, orbit: 2 }), data_word(0x20, &[0xA0, 1, 0xB0, 0, 0, 0, 0, 0, 0]), tdt(0, 0, true, false, false), ddw0(0, false, false, 0), cdw(1, 0)];
    let mut seq = vec![];
    for w in &words {
        seq.extend_from_slice(w);
    }
    let _ = std::fs::write(dir.join("seq"), &seq);
    for (i, w) in words.iter().enumerate() {
        let mut v = vec![i as u8];
        v.extend_from_slice(w);
        v.extend_from_slice(&[0xFF, 0xFF, 0xFF, 0x0F]);
        let _ = std::fs::write(dir.join(format!("word{i}")), v);
    }
    let mut p = vec![0u8];
    p.extend_from_slice(&seq);
    p.extend_from_slice(&[0xFF; 6]);
    let _ = std::fs::write(dir.join("payload2"), &p);
    let mut p0 = vec![1u8];
    p0.extend_from_slice(&seq);
    let _ = std::fs::write(dir.join("payload0"), &p0);
}

pub fn fuzz_specs(id: &str) -> Vec<FuzzSpec> {
    match id {
        "C04" => vec![
            FuzzSpec { target: "pipeline", secs: 360, jobs: 10, corpus: corpus_pipeline, is_mine: |t| !t.contains("C07 violation"), signature: sig_generic },
            FuzzSpec { target: "views", secs: 240, jobs: 6, corpus: corpus_views, is_mine: |_| true, signature: sig_generic },
        ],
        "C07" => vec![FuzzSpec { target: "pipeline", secs: 300, jobs: 12, corpus: corpus_pipeline, is_mine: |t| t.contains("C07 violation"), signature: |t| {
            let i = t.find("C07 violation ").map(|i| i + 14).unwrap_or(0);
            format!("fuzz:{}", t[i..].split(':').take(3).collect::<Vec<_>>().join(":").chars().take(80).collect::<String>())
        } }],
        "C09" => vec![FuzzSpec { target: "fsmseq", secs: 120, jobs: 8, corpus: corpus_small, is_mine: |_| true, signature: sig_generic }],
        "C11" => vec![FuzzSpec { target: "words", secs: 120, jobs: 8, corpus: corpus_small, is_mine: |_| true, signature: sig_generic }],
        "C12" => vec![FuzzSpec { target: "payload", secs: 120, jobs: 8, corpus: corpus_small, is_mine: |_| true, signature: sig_generic }],
        _ => vec![],
    }
}
