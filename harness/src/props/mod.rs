pub mod common;
pub mod c01;
pub mod c02;
pub mod c03;
pub mod c04;
pub mod c05;
pub mod c06;
pub mod c07;
pub mod c08;
pub mod c09;
pub mod c10;
pub mod c11;
pub mod c12;
pub mod c13;
pub mod c14;
pub mod c15;
pub mod c16;
pub mod c17;
pub mod c18;
pub mod c19;
pub mod c20;

use crate::engine::Property;

pub const ALL_IDS: &[&str] = &["C01", "C02", "C03", "C04", "C05", "C06", "C07", "C08", "C09", "C10", "C11", "C12", "C13", "C14", "C15", "C16", "C17", "C18", "C19", "C20"];

pub fn build(id: &str) -> Option<Property> {
    match id {
        "C01" => Some(c01::build()),
        "C02" => Some(c02::build()),
        "C03" => Some(c03::build()),
        "C04" => Some(c04::build()),
        "C05" => Some(c05::build()),
        "C06" => Some(c06::build()),
        "C07" => Some(c07::build()),
        "C08" => Some(c08::build()),
        "C09" => Some(c09::build()),
        "C10" => Some(c10::build()),
        "C11" => Some(c11::build()),
        "C12" => Some(c12::build()),
        "C13" => Some(c13::build_property()),
        "C14" => Some(c14::build()),
        "C15" => Some(c15::build()),
        "C16" => Some(c16::build()),
        "C17" => Some(c17::build()),
        "C18" => Some(c18::build()),
        "C19" => Some(c19::build()),
        "C20" => Some(c20::build()),
        _ => None,
    }
}
