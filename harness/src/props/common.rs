//! helpers shared by the property modules

use crate::cli::{self, Input, RunOut, RunSpec};
use crate::engine::{Fail, Worker};
use crate::inproc::Mode;
use crate::model::*;
use crate::tape::{hex, Tape};
use serde_json::{json, Value};
use std::path::PathBuf;
use std::sync::Arc;

pub struct CliCase<'a> {
    pub w: &'a Worker,
    pub data: Arc<Vec<u8>>,
    pub file: Option<PathBuf>,
    pub execs: u64,
    /// when non-zero: one in `stall_one_in` piped inputs (chosen by the data's hash) is fed by a producer that stalls
    /// for 1.3 s after 60 % of the bytes
    pub stall_one_in: u64,
}

impl<'a> CliCase<'a> {
    pub fn new(w: &'a Worker, data: Vec<u8>) -> Self {
        CliCase {
            w,
            data: Arc::new(data),
            file: None,
            execs: 0,
            stall_one_in: 0,
        }
    }
    pub fn file(&mut self) -> PathBuf {
        if self.file.is_none() {
            self.file = Some(self.w.write("in.raw", &self.data));
        }
        self.file.clone().unwrap()
    }
    pub fn input(&mut self, stdin: bool, chunk: usize) -> Input {
        if stdin {
            Input::Pipe(self.data.clone(), chunk)
        } else {
            Input::File(self.file())
        }
    }
    /// run with `args` (input path is appended for file mode)
    pub fn run(&mut self, mut args: Vec<String>, stdin: bool) -> (RunSpec, RunOut) {
        let input = self.input(stdin, 0);
        if let Input::File(p) = &input {
            args.insert(0, p.display().to_string());
        }
        let mut spec = RunSpec::new(args, input);
        if stdin && self.stall_one_in > 0 {
            spec.pause = stall_for(&self.data, self.stall_one_in);
        }
        let out = cli::run(&self.w.cli, &spec);
        self.execs += 1;
        (spec, out)
    }
    pub fn run_spec(&mut self, spec: &RunSpec) -> RunOut {
        self.execs += 1;
        cli::run(&self.w.cli, spec)
    }
}

pub fn input_detail(data: &[u8]) -> Value {
    if data.len() <= 64 * 1024 {
        json!({"len": data.len(), "input_hex": hex(data)})
    } else {
        json!({"len": data.len(), "input_hex_head": hex(&data[..4096]), "note": "input longer than 64 KiB: regenerate from the tape"})
    }
}

/// generic crash / hang predicate (C04 predicate) - returns Some(fail) if the run crashed or hung
pub fn crash_check(spec: &RunSpec, out: &RunOut, data: &[u8], allowed_codes: &[i32]) -> Option<Fail> {
    if out.timed_out {
        return Some(Fail::new(
            "hang:watchdog",
            "process did not end within the watchdog",
            json!({"cmd": spec.describe(), "out": out.brief(), "input": input_detail(data)}),
        ));
    }
    if let Some(sig) = out.crash_signature() {
        return Some(Fail::new(
            sig,
            format!("process crashed: {}", out.panic_line().unwrap_or_default()),
            json!({"cmd": spec.describe(), "out": out.brief(), "input": input_detail(data)}),
        ));
    }
    match out.code {
        Some(c) if allowed_codes.contains(&c) => None,
        other => Some(Fail::new(
            format!("exit-status:{other:?}"),
            format!("exit status {other:?} not in {allowed_codes:?}"),
            json!({"cmd": spec.describe(), "out": out.brief(), "input": input_detail(data)}),
        )),
    }
}

pub fn mode_of(t: &mut Tape) -> Mode {
    *t.pick(&crate::inproc::ALL_MODES)
}

/// read + parse a stats file written by the tool
pub fn read_stats(path: &std::path::Path, toml_fmt: bool) -> Option<Value> {
    let s = std::fs::read_to_string(path).ok()?;
    cli::parse_stats(&s, toml_fmt)
}

pub fn stats_args(path: &std::path::Path, toml_fmt: bool) -> Vec<String> {
    vec![
        "-S".into(),
        path.display().to_string(),
        "-D".into(),
        if toml_fmt { "toml".into() } else { "json".into() },
    ]
}

pub fn rdhs_of(stream: &Stream, lay: &Layout) -> Vec<Rdh> {
    (0..lay.packets.len()).map(|i| stream.packet(lay, i).rdh.clone()).collect()
}

pub fn stream_summary(stream: &Stream, bytes: &[u8]) -> Value {
    let (_, lay) = stream.encode();
    let heads: Vec<Value> = (0..lay.packets.len().min(4))
        .map(|i| {
            let p = stream.packet(&lay, i);
            json!({"off": lay.packets[i].offset, "rdh": p.rdh.summary(), "words": p.words.iter().take(6).map(|w| word_hex(w)).collect::<Vec<_>>(), "n_words": p.words.len(), "pad": p.pad})
        })
        .collect();
    json!({"bytes": bytes.len(), "packets": lay.packets.len(), "links": stream.links.len(), "first_packets": heads, "head_hex": hex(&bytes[..bytes.len().min(96)])})
}

/// Options that are documented not to change what is found in the data: verbosity, unstyled views with a check, an
/// explicit `-e 0`, a custom-checks file whose keys are absent or agree with the data (RDH version when the stream has
/// one version, packet count when nothing is filtered).  Returned with labels for the evidence histogram.
pub fn neutral_extras(t: &mut Tape, w: &Worker, stream: &Stream, n_packets: usize) -> (Vec<String>, Vec<String>) {
    let mut args: Vec<String> = vec![];
    let mut labels: Vec<String> = vec![];
    if t.chance(1, 4) {
        let v = *t.pick(&["0", "2", "3"]);
        args.extend(["-v".to_string(), v.to_string()]);
        labels.push(format!("opt:-v{v}"));
    }
    if t.chance(1, 6) {
        args.push("-d".into());
        labels.push("opt:-d".into());
    }
    if t.chance(1, 8) {
        args.extend(["-e".to_string(), "0".to_string()]);
        labels.push("opt:-e0".into());
    }
    if t.chance(1, 4) {
        let first = stream.links.iter().flat_map(|l| l.packets.iter()).next().map(|p| p.rdh.version);
        let one_version = first.is_some() && stream.links.iter().all(|l| l.packets.iter().all(|p| Some(p.rdh.version) == first));
        let mut lines = vec!["# keys that agree with the data (or are absent) change nothing".to_string()];
        match t.below(4) {
            0 => {}
            1 if one_version => lines.push(format!("rdh_version = {}", first.unwrap())),
            2 => lines.push(format!("cdps = {n_packets}")),
            _ => {
                if one_version {
                    lines.push(format!("rdh_version = {}", first.unwrap()));
                }
                lines.push(format!("cdps = {n_packets}"));
            }
        }
        let f = w.write("neutral_checks.toml", (lines.join("\n") + "\n").as_bytes());
        args.extend(["--checks-toml".to_string(), f.display().to_string()]);
        labels.push(format!("opt:checks-toml({} keys)", lines.len() - 1));
    }
    (args, labels)
}

/// A producer on stdin that stalls for 1.3 s: for one in `one_in` inputs (chosen by the data's hash), either after 60 %
/// of the bytes or after the first 1..7 bytes (a first delivery shorter than an RDH0).
pub fn stall_for(data: &[u8], one_in: u64) -> Option<(usize, std::time::Duration)> {
    let h = crate::tape::fnv64(data);
    if one_in == 0 || h % one_in != 0 || data.len() < 16 {
        return None;
    }
    let k = h / one_in;
    let pos = if k % 2 == 0 { data.len() * 6 / 10 } else { 1 + (k / 2 % 7) as usize };
    Some((pos, std::time::Duration::from_millis(1300)))
}
