//! C15 - statistics files round-trip and detect any drift

use super::common::*;
use crate::cli;
use crate::engine::*;
use crate::gen::{self, ConfOpts, MutOpts};
use crate::inproc::{Mode, ALL_MODES};
use crate::model::*;
use crate::tape::{fnv64, Tape};
use serde_json::{json, Value};

#[derive(Clone, Debug)]
enum Seg {
    Key(String),
    Idx(usize),
}

fn leaves(v: &Value, path: &mut Vec<Seg>, out: &mut Vec<Vec<Seg>>) {
    match v {
        Value::Object(m) => {
            for (k, x) in m {
                path.push(Seg::Key(k.clone()));
                leaves(x, path, out);
                path.pop();
            }
        }
        Value::Array(a) => {
            // the array itself is a leaf (length changes) and so is every element
            out.push(path.clone());
            for (i, x) in a.iter().enumerate() {
                path.push(Seg::Idx(i));
                leaves(x, path, out);
                path.pop();
            }
        }
        _ => out.push(path.clone()),
    }
}

fn get_mut<'a>(v: &'a mut Value, path: &[Seg]) -> Option<&'a mut Value> {
    let mut cur = v;
    for s in path {
        cur = match s {
            Seg::Key(k) => cur.get_mut(k)?,
            Seg::Idx(i) => cur.get_mut(*i)?,
        };
    }
    Some(cur)
}

fn path_str(p: &[Seg]) -> String {
    p.iter()
        .map(|s| match s {
            Seg::Key(k) => format!(".{k}"),
            Seg::Idx(i) => format!("[{i}]"),
        })
        .collect()
}

fn stat_name(p: &[Seg]) -> String {
    p.iter()
        .rev()
        .find_map(|s| match s {
            Seg::Key(k) => Some(k.clone()),
            _ => None,
        })
        .unwrap_or_default()
}

const SYS: [&str; 4] = ["ITS", "TPC", "TOF", "MFT"];

/// type-correct perturbation of the leaf at `path`; returns a description or None if not perturbable
fn perturb(tree: &mut Value, path: &[Seg], variant: usize) -> Option<String> {
    let name = stat_name(path);
    let leaf = get_mut(tree, path)?;
    match leaf {
        Value::Number(n) => {
            let x = n.as_u64()?;
            let max = match name.as_str() {
                "rdh_version" | "data_format" | "links" | "layer_staves_seen" | "staves_with_errors" => 255,
                "fee_id" => 65535,
                "run_trigger_type" | "hbfs_seen" => u32::MAX as u64,
                _ if path_str(path).contains(".trigger_stats.") || path_str(path).contains(".readout_flags.") => u32::MAX as u64,
                _ => u64::MAX / 4,
            };
            let y = if x >= max { x - 1 } else { x + 1 };
            *leaf = json!(y);
            Some(format!("{x} -> {y}"))
        }
        Value::String(s) => {
            let old = s.clone();
            if name == "system_id" {
                let i = SYS.iter().position(|x| *x == old).unwrap_or(3);
                *s = SYS[(i + 1) % SYS.len()].to_string();
            } else if variant % 2 == 0 {
                s.push('x');
            } else {
                // change one character in the middle
                let mut chars: Vec<char> = old.chars().collect();
                if chars.is_empty() {
                    chars.push('y');
                } else {
                    let i = chars.len() / 2;
                    chars[i] = if chars[i] == 'Z' { 'Y' } else { 'Z' };
                }
                *s = chars.into_iter().collect();
            }
            Some(format!("string edited ({} chars)", old.len()))
        }
        Value::Array(a) => {
            // tuples ((layer, stave) pairs, (trigger value, description)) have a fixed arity: changing it would make the
            // file malformed rather than drifted
            let is_tuple = name == "run_trigger_type" || (matches!(path.last(), Some(Seg::Idx(_))) && matches!(name.as_str(), "layer_staves_seen" | "staves_with_errors"));
            if is_tuple {
                return None;
            }
            if variant % 2 == 0 && !a.is_empty() {
                a.pop();
                Some("element removed".into())
            } else {
                let fresh = match name.as_str() {
                    "links" => json!(250),
                    "fee_id" => json!(65000),
                    "reported_errors" => json!("0xFFFFFF: [E10] extra message"),
                    "custom_checks_stats_errors" => json!("[E9001] extra"),
                    "unique_error_codes" => json!("9999"),
                    "layer_staves_seen" | "staves_with_errors" => json!([6, 47]),
                    "run_trigger_type" => return None,
                    _ => match a.last() {
                        Some(l) => l.clone(),
                        None => return None,
                    },
                };
                a.push(fresh);
                Some("element added".into())
            }
        }
        Value::Null => {
            if name == "fatal_error" {
                *leaf = json!("invented fatal error");
                Some("null -> string".into())
            } else {
                None
            }
        }
        Value::Bool(_) | Value::Object(_) => None,
    }
}

fn serialise(tree: &Value, toml_fmt: bool) -> Option<String> {
    if toml_fmt {
        fn strip_nulls(v: &Value) -> Value {
            match v {
                Value::Object(m) => Value::Object(m.iter().filter(|(_, x)| !x.is_null()).map(|(k, x)| (k.clone(), strip_nulls(x))).collect()),
                Value::Array(a) => Value::Array(a.iter().map(strip_nulls).collect()),
                x => x.clone(),
            }
        }
        let t: toml::Value = serde_json::from_value(strip_nulls(tree)).ok()?;
        toml::to_string_pretty(&t).ok()
    } else {
        serde_json::to_string_pretty(tree).ok()
    }
}

fn case(t0: &mut Tape, w: &Worker) -> CaseResult {
    let mut ot = t0.fork(200);
    let mut out = CaseOut::default();
    // class 2: ALPIDE-level faults on several staves at once, judged in stave mode (the only mode that names staves in its messages)
    let class = ot.weighted(&[2, 5, 1]);
    let mut cs = gen::gen_conf_stream(t0, &ConfOpts { max_links: if class == 2 { 6 } else { 4 }, min_links: if class == 2 { 2 } else { 1 }, max_hbfs: 3, big_16: 1, ..Default::default() });
    if class == 2 {
        let mut mt = t0.fork(300);
        let mut hit = 0;
        for link in cs.stream.links.iter_mut() {
            // drop one data word (or flip one of its bits) in up to three packets of every link
            let mut done = 0;
            for p in link.packets.iter_mut() {
                let idx: Vec<usize> = p.words.iter().enumerate().filter(|(_, w)| crate::model::is_data_id(w[9])).map(|(i, _)| i).collect();
                if idx.is_empty() || done >= 3 {
                    continue;
                }
                let wi = idx[mt.below(idx.len())];
                if mt.chance(1, 2) {
                    p.words.remove(wi);
                } else {
                    let bit = mt.below(72);
                    p.words[wi][bit / 8] ^= 1 << (bit % 8);
                }
                p.fix_sizes();
                done += 1;
            }
            hit += (done > 0) as usize;
        }
        gen::sanitize_layout(&mut cs.stream);
        out.labels.push(format!("input:stave_faults(links hit: {})", hit.min(4)));
    } else if class == 1 {
        let mut mt = t0.fork(300);
        let n = 1 + mt.below(10);
        gen::mutate_stream(&mut mt, &mut cs.stream, &MutOpts { protect_first: true, keep_framing: true, keep_layout: true }, n, &mut vec![]);
        out.labels.push("input:corrupted".into());
    } else {
        out.labels.push("input:conforming".into());
    }
    let (bytes, lay) = cs.stream.encode();
    let mode = if class == 2 { Mode::AllItsStave } else { *ot.pick(&ALL_MODES) };
    let toml_fmt = ot.chance(1, 2);
    let mute = ot.chance(1, 3);
    let n = 1 + ot.below(255);
    let stdin = ot.chance(1, 2);
    let ext = if toml_fmt { "toml" } else { "json" };
    let stats_file = w.path("written").with_extension(ext);
    // a fifth of the cases: the same round trip / drift in the modes that print no report (views, filtered data to stdout)
    let rdhs = rdhs_of(&cs.stream, &lay);
    let other: Option<(Vec<String>, &'static str)> = if ot.chance(1, 5) {
        Some(match ot.below(4) {
            0 => (vec!["view".into(), "rdh".into()], "view rdh"),
            1 => (vec!["view".into(), "its-readout-frames".into()], "view its-readout-frames"),
            2 => (vec!["view".into(), "its-readout-frames-data".into()], "view its-readout-frames-data"),
            _ => {
                let mut a = Filter::Link(rdhs[ot.below(rdhs.len())].link_id).args();
                a.extend(["-o".to_string(), "stdout".to_string()]);
                (a, "filter to stdout")
            }
        })
    } else {
        None
    };
    let mode_name: &'static str = other.as_ref().map(|o| o.1).unwrap_or(mode.name());
    let mut base = other.as_ref().map(|o| o.0.clone()).unwrap_or_else(|| mode.args());
    if mute {
        base.push("-m".into());
    }
    // optional filter (same in both runs)
    if mode_name != "filter to stdout" && ot.chance(1, 4) {
        base.extend(Filter::Link(rdhs[ot.below(rdhs.len())].link_id).args());
        out.labels.push("with_filter".into());
    }
    // the statistics path may exist already and hold a longer document from an earlier run: it is replaced, not patched
    if ot.chance(1, 3) {
        let filler = format!("{{\"leftover\": \"{}\"}}\n", "x".repeat(200_000));
        let _ = std::fs::write(&stats_file, filler);
        out.labels.push("stats_path_existed(longer)".into());
    }
    let mut case = CliCase::new(w, bytes.clone());
    // ---- run 1 writes the file
    let mut a1 = base.clone();
    a1.extend(stats_args(&stats_file, toml_fmt));
    let (spec1, o1) = case.run(a1, stdin);
    if o1.timed_out || o1.crash_signature().is_some() || cli::has_fatal(&o1.stderr) {
        out.labels.push("skipped:crash_or_fatal".into());
        return Ok(out);
    }
    let Ok(written) = std::fs::read_to_string(&stats_file) else {
        return Err(Fail::new("C15:no-stats-file", "statistics file not written", json!({"cmd": spec1.describe(), "out": o1.brief()})));
    };
    let Some(tree) = cli::parse_stats(&written, toml_fmt) else {
        return Err(Fail::new("C15:stats-file-unparsable", "statistics file cannot be parsed by an independent parser", json!({"cmd": spec1.describe(), "file_head": written.chars().take(400).collect::<String>()})));
    };
    let has_errors = tree["error_stats"]["total_errors"].as_u64().unwrap_or(0) > 0;
    let also_write_other = ot.chance(1, 4);
    let other_out = w.path("verify_out").with_extension(if toml_fmt { "json" } else { "toml" });
    if also_write_other {
        out.labels.push("verify_run_writes_other_format".into());
    }
    let verify = |case: &mut CliCase, file: &std::path::Path, data_override: Option<Vec<u8>>| {
        let mut a = base.clone();
        a.extend(["-i".to_string(), file.display().to_string(), "-E".to_string(), n.to_string(), "-v".to_string(), "2".to_string()]);
        if also_write_other {
            // the verifying run writes its own statistics too, in the OTHER format (the file to compare with is read by its own format)
            a.extend(stats_args(&other_out, !toml_fmt));
        }
        match data_override {
            None => case.run(a, stdin),
            Some(d) => {
                let mut c2 = CliCase::new(case.w, d);
                let r = c2.run(a, stdin);
                case.execs += c2.execs;
                r
            }
        }
    };
    // ---- round trip
    let (spec2, o2) = verify(&mut case, &stats_file, None);
    let mismatch_lines = |o: &cli::RunOut| -> Vec<String> { cli::parse_log(&o.stderr).into_iter().filter(|r| r.text.contains("mismatch!")).map(|r| r.text.lines().next().unwrap_or("").to_string()).collect() };
    let detail_rt = json!({"mode": mode_name, "format": ext, "mute": mute, "cmd_write": spec1.describe(), "cmd_verify": spec2.describe(), "verify_out": o2.brief(), "mismatches": mismatch_lines(&o2), "input": input_detail(&bytes)});
    if o2.timed_out || o2.crash_signature().is_some() {
        return Err(Fail::new(format!("C15:verify-crash:{}", o2.crash_signature().unwrap_or_else(|| "hang".into())), "the verifying run crashed", detail_rt));
    }
    let expect_code = if has_errors { n as i32 } else { 0 };
    let matched = o2.stderr.contains("Input stats matched collected stats");
    if !matched || !mismatch_lines(&o2).is_empty() || o2.code != Some(expect_code) {
        let which = mismatch_lines(&o2).first().map(|l| l.split(' ').next().unwrap_or("").to_string()).unwrap_or_else(|| if o2.code != Some(expect_code) { "exit-status".into() } else { "no-match-line".into() });
        return Err(Fail::new(
            format!("C15:roundtrip-rejected:{ext}:{which}"),
            format!("a statistics file written by a run is not accepted by the same run again ({}; exit {:?}, expected {expect_code})", mismatch_lines(&o2).first().cloned().unwrap_or_default(), o2.code),
            detail_rt,
        ));
    }
    // ---- drift of the file: every collected leaf, one at a time
    let mut all = vec![];
    leaves(&tree, &mut vec![], &mut all);
    let stave = mode.stave() && other.is_none();
    let mut perturbed = 0;
    let mut names_done: Vec<String> = vec![];
    for (li, path) in all.iter().enumerate() {
        let ps = path_str(path);
        if ps.starts_with(".is_finalized") || (ps.starts_with(".alpide_stats") && !stave) {
            continue;
        }
        // long error lists: perturb the first, the last and a sample of the elements
        if let Some(Seg::Idx(i)) = path.last() {
            let parent_len = get_mut(&mut tree.clone(), &path[..path.len() - 1]).and_then(|p| p.as_array().map(|a| a.len())).unwrap_or(0);
            if parent_len > 6 && *i != 0 && *i + 1 != parent_len && (li + ot.below(5)) % 5 != 0 {
                continue;
            }
        }
        let mut t2 = tree.clone();
        let Some(desc) = perturb(&mut t2, path, li) else { continue };
        let Some(text) = serialise(&t2, toml_fmt) else { continue };
        let f = w.path("drift").with_extension(ext);
        std::fs::write(&f, text).ok();
        let (spec, o) = verify(&mut case, &f, None);
        perturbed += 1;
        let name = stat_name(path);
        let lines = mismatch_lines(&o);
        let named = lines.iter().any(|l| l.starts_with(&format!("{name} mismatch!")));
        let d = json!({"leaf": ps, "perturbation": desc, "mode": mode_name, "format": ext, "mute": mute, "exit": o.code, "mismatch_lines": lines, "cmd": spec.describe(), "out": o.brief(), "input": input_detail(&bytes)});
        if o.timed_out || o.crash_signature().is_some() {
            return Err(Fail::new(format!("C15:drift-crash:{name}"), "the verifying run crashed on a drifted statistics file", d));
        }
        if o.code != Some(n as i32) || o.stderr.contains("Input stats matched collected stats") {
            return Err(Fail::new(format!("C15:drift-not-detected:{name}"), format!("leaf {ps} changed ({desc}) but the run still accepts the file (exit {:?})", o.code), d));
        }
        if !mute && !named {
            return Err(Fail::new(format!("C15:drift-not-named:{name}"), format!("leaf {ps} changed but no `{name} mismatch!` message is shown"), d));
        }
        if !names_done.contains(&name) {
            names_done.push(name);
        }
    }
    // ---- drift of the input: one field changed
    {
        let mut s2 = cs.stream.clone();
        let what = match ot.below(3) {
            0 => {
                // a link id that is not present yet
                let used: Vec<u8> = rdhs.iter().map(|r| r.link_id).collect();
                let fresh = (0..=255u8).find(|x| !used.contains(x)).unwrap_or(255);
                let li = ot.below(s2.links.len());
                let pi = ot.below(s2.links[li].packets.len());
                s2.links[li].packets[pi].rdh.link_id = fresh;
                "link id of one packet"
            }
            1 => {
                let li = ot.below(s2.links.len());
                let pi = ot.below(s2.links[li].packets.len());
                s2.links[li].packets[pi].rdh.trigger_type ^= 1 << *ot.pick(&[0u32, 1, 2, 3, 5, 6, 7, 8, 9, 10, 11, 12, 13, 14, 27, 28, 29, 30, 31]);
                "one trigger bit of one packet"
            }
            _ => {
                let last = s2.links[0].packets.last().unwrap().clone();
                s2.links[0].packets.push(last);
                s2.order.push(0);
                "one packet appended"
            }
        };
        let (b2, _) = s2.encode();
        // with a filter the changed packet may be outside the selection but rdhs_seen / links still change for the three edits
        let (spec, o) = verify(&mut case, &stats_file, Some(b2.clone()));
        let d = json!({"input_change": what, "mode": mode_name, "format": ext, "exit": o.code, "mismatch_lines": mismatch_lines(&o), "cmd": spec.describe(), "out": o.brief(), "original_input": input_detail(&bytes)});
        if !(o.timed_out || o.crash_signature().is_some() || cli::has_fatal(&o.stderr)) {
            let trigger_only = what == "one trigger bit of one packet";
            let filtered = base.iter().any(|a| a == "-f");
            // a trigger bit of a packet outside the filter selection is not a collected statistic
            if !(trigger_only && filtered) && (o.code != Some(n as i32) || o.stderr.contains("Input stats matched collected stats")) {
                return Err(Fail::new(format!("C15:input-drift-not-detected:{}", what.replace(' ', "_")), format!("the input changed ({what}) but the old statistics file is still accepted"), d));
            }
        }
        out.labels.push(format!("input_drift:{what}"));
    }
    out.labels.push(format!("mode:{}", mode_name));
    out.labels.push(format!("format:{ext}"));
    out.labels.push(if mute { "muted".into() } else { "unmuted".into() });
    for nme in &names_done {
        out.labels.push(format!("leaf:{nme}"));
    }
    let multi_line = tree["error_stats"]["reported_errors"].as_array().map(|a| a.iter().any(|m| m.as_str().map(|s| s.contains('\n')).unwrap_or(false))).unwrap_or(false);
    if multi_line {
        out.labels.push("multi_line_error_message_in_file".into());
    }
    out.nontrivial = has_errors && perturbed > 20;
    out.fingerprint = fnv64(&bytes) ^ fnv64(format!("{}{ext}{mute}", mode_name).as_bytes());
    out.execs = case.execs;
    if w.take_sample() {
        out.sample = Some(json!({"mode": mode_name, "format": ext, "mute": mute, "leaves_perturbed": perturbed, "statistics_named": names_done, "errors_in_file": tree["error_stats"]["total_errors"]}));
    }
    let _ = Mode::All;
    Ok(out)
}

pub fn build() -> Property {
    Property {
        id: "C15",
        rule: "Inputs {conforming, G_mut-corrupted, multi-link G_conf} x five check modes x {JSON, TOML} x mute x optional link filter x file/pipe ; a fifth of the cases in the modes that print no report (the three views, filtered data to stdout). Run 1 writes the statistics file (in a third of the cases over an existing, longer file); run 2 = same command + `-i file -E n -v2` must print `Input stats matched`, \
               no mismatch message, exit n iff the data has errors. Drift of the file: every leaf of the independently parsed tree that the run collects (all of rdh_stats incl. its_stats / trigger_stats, error_stats, alpide_stats in stave mode; is_finalized excluded) \
               is perturbed one at a time, type-correctly (number +-1, string edited, enum value swapped, list element added / removed, option toggled), re-serialised with an independent library and verified: a `<statistic> mismatch!` message naming it (unless muted) and exit n. \
               Drift of the input: one link id / one trigger bit / one appended packet => the old file is rejected. Non-trivial = the data has errors and > 20 leaves were perturbed; the label histogram lists every statistic name that was perturbed.",
        assumptions: vec![
            "`is_finalized` is a flag, not a statistic; `alpide_stats` is collected in stave mode only (the statement's `that the run also collects`)".into(),
            "runs with a FATAL early stop are excluded".into(),
        ],
        phases: vec![Phase { name: "roundtrip_and_drift", kind: PhaseKind::Gen { cases: (400, 2500), tape_len: 200 + 64 + 2000 + 4 * 4000 + 14000 + 300, f: Box::new(case) }, threads: 16 }],
    }
}
