//! C13 - stave-level ALPIDE frame checks are exact and ignore hit content

use super::common::*;
use crate::alpide::{self, ChipSpec, FlagCounts, LaneSpec};
use crate::cli;
use crate::engine::*;
use crate::gen;
use crate::inproc::{self, Mode};
use crate::model::*;
use crate::tape::{fnv64, Tape};
use fastpasta::config::custom_checks::custom_checks_cfg::CustomChecks;
use serde_json::{json, Value};
use std::collections::BTreeSet;

#[derive(Clone, Debug)]
pub struct Custom {
    pub chip_count: Option<u8>,
    pub chip_orders: Option<Vec<Vec<u8>>>,
}

impl Custom {
    pub fn toml(&self) -> String {
        let mut s = String::new();
        if let Some(c) = self.chip_count {
            s.push_str(&format!("chip_count_ob = {c}\n"));
        }
        if let Some(o) = &self.chip_orders {
            s.push_str(&format!("chip_orders_ob = {:?}\n", o));
        }
        s
    }
}

#[derive(Clone, Debug, Default, PartialEq, Eq)]
pub struct Verdict {
    pub e701: bool,
    pub lanes_bad: bool,  // E72 (IB) / E73 (OB) at the frame start
    pub alpide_bad: bool, // E74 (IB) / E75 (OB) at the frame start
    pub sub: BTreeSet<String>, // 9003 / 9004 / 9005 / mismatch
    pub new_fatal: Vec<u8>,
    pub trailers: u32,
    pub flags: FlagCounts,
}

const IB_GROUPS: [[u8; 3]; 3] = [[0, 1, 2], [3, 4, 5], [6, 7, 8]];

/// reference verdict of one frame (DESIGN.md appendix A.4)
pub fn ref_verdict(barrel: Barrel, lanes: &[LaneSpec], fatal_before: &BTreeSet<u8>, custom: &Option<Custom>) -> Verdict {
    let mut v = Verdict::default();
    if lanes.is_empty() {
        v.e701 = true;
        return v;
    }
    let nums: Vec<u8> = lanes.iter().map(|l| lane_of_id(l.id)).collect();
    let n = barrel.lanes();
    let expect = n as i64 - fatal_before.len() as i64;
    if lanes.len() as i64 != expect {
        v.lanes_bad = true;
    } else if barrel == Barrel::Inner {
        let mut sorted = nums.clone();
        sorted.sort_unstable();
        let ok = IB_GROUPS.iter().any(|g| {
            let want: Vec<u8> = g.iter().copied().filter(|x| !fatal_before.contains(x)).collect();
            want == sorted
        });
        if !ok {
            v.lanes_bad = true;
        }
    }
    let mut validated: Vec<u8> = vec![];
    for (l, num) in lanes.iter().zip(nums.iter()) {
        v.trailers += l.n_trailers();
        v.flags.add_lane(l);
        if l.fatal_ape.is_some() {
            v.new_fatal.push(*num);
            continue;
        }
        let mut err = false;
        let bcs: BTreeSet<u8> = l.chips.iter().map(|c| c.bc).collect();
        if bcs.len() > 1 {
            v.sub.insert("9003".into());
            err = true;
        }
        let ids: Vec<u8> = l.chips.iter().map(|c| c.id).collect();
        if barrel == Barrel::Inner {
            if ids.len() != 1 {
                v.sub.insert("9004".into());
                err = true;
            } else if ids[0] != *num {
                v.sub.insert("9005".into());
                err = true;
            }
        } else if let Some(c) = custom {
            let mut count_ok = true;
            if let Some(k) = c.chip_count {
                if ids.len() != k as usize {
                    v.sub.insert("9004".into());
                    err = true;
                    count_ok = false;
                }
            }
            if count_ok {
                if let Some(o) = &c.chip_orders {
                    if !o.contains(&ids) {
                        v.sub.insert("9005".into());
                        err = true;
                    }
                }
            }
        }
        if !err && !l.chips.is_empty() {
            validated.push(l.chips[0].bc);
        }
    }
    let uniq: BTreeSet<u8> = validated.iter().copied().collect();
    if uniq.len() > 1 {
        v.sub.insert("mismatch".into());
    }
    v.alpide_bad = !v.sub.is_empty();
    v
}

#[derive(Clone, Debug)]
pub struct FramePlan {
    pub lanes: Vec<LaneSpec>,
    pub nodata_before: usize,
    pub splits: usize,
    pub class: &'static str,
}

/// skeleton of a frame (lane set, chips, bunch counters, flags) from `sk`; hit content from `ct`
fn gen_frame(sk: &mut Tape, ct: &mut Tape, barrel: Barrel, group: usize, ob_ids: &[u8], fatal: &BTreeSet<u8>, custom: &Option<Custom>, allow_fatal: bool) -> FramePlan {
    let class = *sk.pick(&["ok", "ok", "ok", "lanes_few", "lanes_many", "ib_group", "bc_in_lane", "chip_count", "chip_id", "bc_across", "empty", "fatal"]);
    let base_ids: Vec<u8> = match barrel {
        Barrel::Inner => IB_GROUPS[group].iter().map(|l| 0x20 + l).collect(),
        _ => ob_ids.to_vec(),
    };
    // lanes that announced fatal earlier do not appear again
    let mut ids: Vec<u8> = base_ids.iter().copied().filter(|id| !fatal.contains(&lane_of_id(*id))).collect();
    let mut class_eff = class;
    match class {
        "lanes_few" => {
            if ids.len() > 1 {
                let k = 1 + sk.below((ids.len() - 1).min(3));
                for _ in 0..k {
                    let i = sk.below(ids.len());
                    ids.remove(i);
                }
            } else {
                class_eff = "ok";
            }
        }
        "lanes_many" => {
            let pool: Vec<u8> = match barrel {
                Barrel::Inner => (0x20..=0x28).collect(),
                Barrel::Middle => ML_IDS.to_vec(),
                Barrel::Outer => OL_IDS.to_vec(),
            };
            let extra: Vec<u8> = pool.into_iter().filter(|x| !ids.contains(x)).collect();
            if extra.is_empty() {
                class_eff = "ok";
            } else {
                let k = 1 + sk.below(2.min(extra.len()));
                for j in 0..k {
                    ids.push(extra[(sk.below(extra.len()) + j) % extra.len()]);
                }
                ids.sort_unstable();
                ids.dedup();
            }
        }
        "ib_group" => {
            if barrel == Barrel::Inner && ids.len() == 3 {
                // replace one lane by a lane of another group
                let other = IB_GROUPS[(group + 1 + sk.below(2)) % 3][sk.below(3)];
                let i = sk.below(3);
                ids[i] = 0x20 + other;
                ids.sort_unstable();
                ids.dedup();
                if ids.len() != 3 {
                    class_eff = "lanes_few";
                }
            } else {
                class_eff = "ok";
            }
        }
        "empty" => ids.clear(),
        _ => {}
    }
    let bc = sk.u8();
    let mut lanes: Vec<LaneSpec> = vec![];
    // which lane announces the fatal state (any lane of the frame, the last one of an inner-barrel group included)
    let fatal_idx = if ids.is_empty() { 0 } else { sk.below(ids.len()) };
    for (li, id) in ids.iter().enumerate() {
        let num = lane_of_id(*id);
        let mut chip_ids: Vec<u8> = match barrel {
            Barrel::Inner => vec![num],
            _ => match custom {
                Some(Custom { chip_orders: Some(o), .. }) if !o.is_empty() => o[sk.below(o.len())].clone(),
                Some(Custom { chip_count: Some(k), .. }) => (0..*k).collect(),
                _ => {
                    if sk.chance(1, 2) {
                        (0..7).collect()
                    } else {
                        (8..15).collect()
                    }
                }
            },
        };
        let victim = li == 0 || sk.chance(1, 4);
        let mut lane_bcs: Vec<u8> = vec![bc; chip_ids.len().max(1)];
        if victim {
            match class {
                "bc_in_lane" => {
                    if chip_ids.len() >= 2 {
                        let i = sk.below(chip_ids.len());
                        lane_bcs[i] = bc.wrapping_add(1 + sk.below(254) as u8);
                    } else if barrel == Barrel::Inner {
                        // a second chip with another bunch counter (also a chip count error)
                        chip_ids.push((num + 1) % 16);
                        lane_bcs.push(bc.wrapping_add(1));
                    }
                }
                "chip_count" => {
                    if barrel == Barrel::Inner {
                        if sk.chance(1, 2) {
                            chip_ids.clear();
                        } else {
                            chip_ids.push((num + 1 + sk.below(14) as u8) % 16);
                            lane_bcs.push(bc);
                        }
                    } else if !chip_ids.is_empty() {
                        chip_ids.pop();
                    }
                }
                "chip_id" => {
                    if barrel == Barrel::Inner {
                        chip_ids[0] = (num + 1 + sk.below(14) as u8) % 16;
                    } else if chip_ids.len() >= 2 {
                        chip_ids.swap(0, 1);
                    }
                }
                "bc_across" => {
                    let d = 1 + sk.below(254) as u8;
                    for b in lane_bcs.iter_mut() {
                        *b = bc.wrapping_add(d);
                    }
                }
                _ => {}
            }
        }
        let chips: Vec<ChipSpec> = chip_ids
            .iter()
            .enumerate()
            .map(|(ci, cid)| {
                let empty = sk.chance(1, 4);
                ChipSpec {
                    id: *cid,
                    bc: *lane_bcs.get(ci).unwrap_or(&bc),
                    empty,
                    flags: if sk.chance(1, 2) { sk.u8() & 0xF } else { 0 },
                    items: if empty { vec![] } else { alpide::gen_items(ct, true) },
                    pad_after: if ct.chance(1, 4) { ct.below(6) as u8 } else { 0 },
                    busy_after: if ct.chance(1, 6) { 1 + ct.below(3) as u8 } else { 0 },
                }
            })
            .collect();
        let fatal_ape = if class == "fatal" && allow_fatal && li == fatal_idx && ids.len() > 1 { Some(*sk.pick(&alpide::APE_FATAL)) } else { None };
        lanes.push(LaneSpec { id: *id, pad_before: if ct.chance(1, 6) { ct.below(5) as u8 } else { 0 }, chips, fatal_ape });
    }
    FramePlan { lanes, nodata_before: if sk.chance(1, 5) { 1 + sk.below(2) } else { 0 }, splits: sk.weighted(&[6, 2, 1]), class: class_eff }
}

pub struct Built {
    pub stream: Stream,
    pub frames: Vec<FramePlan>,
    /// per frame: candidate start (packet, word) positions and barrel
    pub starts: Vec<Vec<(usize, usize)>>,
    pub barrel: Barrel,
    pub custom: Option<Custom>,
}

/// build one link (one HBF) carrying the frames; `sk`/`ct` = skeleton / hit-content tapes
pub fn build(sk: &mut Tape, ct: &mut Tape) -> Built {
    let barrel = *sk.pick(&[Barrel::Inner, Barrel::Middle, Barrel::Outer]);
    let layer = match barrel {
        Barrel::Inner => sk.below(3) as u8,
        Barrel::Middle => 3 + sk.below(2) as u8,
        Barrel::Outer => 5 + sk.below(2) as u8,
    };
    let fee = fee_id(layer, sk.below(4) as u8, sk.below(STAVES_PER_LAYER[layer as usize] as usize) as u8);
    let group = sk.below(3);
    let ob_ids: Vec<u8> = match barrel {
        Barrel::Middle => if sk.chance(1, 2) { ML_IDS[0..8].to_vec() } else { gen::choose_k(sk, &ML_IDS, 8) },
        Barrel::Outer => if sk.chance(1, 2) { OL_IDS[0..14].to_vec() } else { gen::choose_k(sk, &OL_IDS, 14) },
        _ => vec![],
    };
    let custom = if barrel != Barrel::Inner && sk.chance(1, 3) {
        Some(match sk.below(3) {
            0 => Custom { chip_count: Some(7), chip_orders: None },
            1 => Custom { chip_count: None, chip_orders: Some(vec![(0..7).collect(), (8..15).collect()]) },
            _ => Custom { chip_count: Some(7), chip_orders: Some(vec![(0..7).collect(), (8..15).collect()]) },
        })
    } else {
        None
    };
    let fmt: u8 = if sk.chance(1, 2) { 2 } else { 0 };
    let n_frames = 1 + sk.below(5);
    let orbit = sk.u32();
    let trg = 0x6A13u32;
    let bc0 = sk.below(0xDEC) as u16;
    let mk_rdh = |page: u16, stop: u8| Rdh { fee_id: fee, link_id: 4, orbit, trigger_type: trg, pages_counter: page, stop_bit: stop, bc_word: bc0 as u32, format_word: fmt as u64, ..Rdh::default() };
    let mut packets: Vec<Packet> = vec![];
    let mut cur = Packet::new(mk_rdh(0, 0));
    cur.words.push(ihw(0x0FFF_FFFF));
    let mut page = 0u16;
    let mut frames = vec![];
    let mut starts = vec![];
    let mut fatal: BTreeSet<u8> = BTreeSet::new();
    let mut pending: Vec<(usize, usize)> = vec![];
    let mut first = true;
    let mut last_bc = bc0;
    for _ in 0..n_frames {
        let fp = gen_frame(sk, ct, barrel, group, &ob_ids, &fatal, &custom, true);
        for l in &fp.lanes {
            if l.fatal_ape.is_some() {
                fatal.insert(lane_of_id(l.id));
            }
        }
        let mk_tdh = |first: bool, no_data: bool, bc: u16| TdhF { trigger_type: if first { (trg & 0xFFF) as u16 } else { 0x11 }, internal: true, no_data, continuation: false, bc, orbit };
        for _ in 0..fp.nodata_before {
            pending.push((packets.len(), cur.words.len()));
            cur.words.push(tdh(&mk_tdh(first, true, last_bc)));
            first = false;
        }
        pending.push((packets.len(), cur.words.len()));
        let this_tdh = mk_tdh(first, false, last_bc);
        cur.words.push(tdh(&this_tdh));
        first = false;
        last_bc = (last_bc + sk.below(3) as u16).min(0xDEB);
        let dws = gen::interleave_lanes(ct, &fp.lanes);
        let mut cuts: Vec<usize> = vec![];
        for _ in 0..fp.splits {
            if dws.len() >= 2 {
                cuts.push(1 + ct.below(dws.len() - 1));
            }
        }
        // page capacity
        let mut pos = 0usize;
        let mut cap = 450usize.saturating_sub(cur.words.len()).max(1);
        while dws.len() > pos + cap {
            pos += cap;
            cuts.push(pos);
            cap = 440;
        }
        cuts.sort_unstable();
        cuts.dedup();
        let mut start = 0;
        for (ci, cp) in cuts.iter().chain(std::iter::once(&dws.len())).enumerate() {
            cur.words.extend_from_slice(&dws[start..*cp]);
            start = *cp;
            let last = ci == cuts.len();
            cur.words.push(tdt(0, 0, last, false, false));
            if !last {
                if fmt == 2 {
                    cur.pad = ct.below(16);
                }
                cur.fix_sizes();
                packets.push(cur);
                page += 1;
                cur = Packet::new(mk_rdh(page, 0));
                cur.words.push(ihw(0x0FFF_FFFF));
                let mut c = this_tdh;
                c.continuation = true;
                cur.words.push(tdh(&c));
            }
        }
        starts.push(std::mem::take(&mut pending));
        frames.push(fp);
        // sometimes start a new page between frames
        if sk.chance(1, 4) {
            if fmt == 2 {
                cur.pad = ct.below(16);
            }
            cur.fix_sizes();
            packets.push(cur);
            page += 1;
            cur = Packet::new(mk_rdh(page, 0));
            cur.words.push(ihw(0x0FFF_FFFF));
            // first TDH of the new page is produced by the next frame (non-continuation, orbit = RDH orbit)
            if frames.len() == n_frames {
                // no further frame: give the page a no-data TDH so that it is well formed
                cur.words.push(tdh(&mk_tdh(false, true, last_bc)));
            }
        }
    }
    if fmt == 2 {
        cur.pad = ct.below(16);
    }
    cur.fix_sizes();
    packets.push(cur);
    page += 1;
    let mut stop = Packet::new(mk_rdh(page, 1));
    stop.words.push(ddw0(0, false, false, 0));
    stop.fix_sizes();
    packets.push(stop);
    for p in packets.iter_mut() {
        p.frame_of_word = vec![usize::MAX; p.words.len()];
    }
    Built { stream: Stream::single(Link { packets, barrel, lane_ids: vec![] }), frames, starts, barrel, custom }
}

fn frame_level(m: &cli::ErrMsg) -> Option<&'static str> {
    if m.dump.is_some() {
        return None;
    }
    match m.codes.first().map(|s| s.as_str()) {
        Some("701") => Some("701"),
        Some("72") | Some("73") if m.text.contains("ALPIDE data frame") => Some("lanes"),
        Some("74") | Some("75") => Some("alpide"),
        _ => None,
    }
}

#[derive(Debug, PartialEq, Eq, Clone)]
struct Observed {
    per_frame: Vec<(bool, bool, bool, BTreeSet<String>)>,
    other_errors: Vec<String>,
}

fn judge(b: &Built, errors: &[String], alpide_total: &Value, how: &str, bytes: &[u8]) -> Result<Observed, Fail> {
    let (_, lay) = b.stream.encode();
    let msgs: Vec<cli::ErrMsg> = errors.iter().filter_map(|e| cli::parse_err_msg(e)).collect();
    let mut fatal: BTreeSet<u8> = BTreeSet::new();
    let mut obs = Observed { per_frame: vec![], other_errors: vec![] };
    let mut used = vec![false; msgs.len()];
    let mut trailers = 0u32;
    let mut flags = FlagCounts::default();
    let code_lanes = if b.barrel == Barrel::Inner { "72" } else { "73" };
    let code_alp = if b.barrel == Barrel::Inner { "74" } else { "75" };
    for (k, fp) in b.frames.iter().enumerate() {
        let want = ref_verdict(b.barrel, &fp.lanes, &fatal, &b.custom);
        let cands: Vec<u64> = b.starts[k].iter().map(|(p, w)| b.stream.word_offset(&lay, *p, *w)).collect();
        let mut got = (false, false, false, BTreeSet::new());
        for (i, m) in msgs.iter().enumerate() {
            if let Some(kind) = frame_level(m) {
                if cands.contains(&m.offset) {
                    used[i] = true;
                    match kind {
                        "701" => got.0 = true,
                        "lanes" => {
                            got.1 = true;
                            if m.codes[0] != code_lanes {
                                return Err(Fail::new("C13:wrong-code-for-barrel", format!("lane-count error reported with E{} for a {} stave", m.codes[0], b.barrel.name()), json!({"msg": m.text})));
                            }
                        }
                        _ => {
                            got.2 = true;
                            if m.codes[0] != code_alp {
                                return Err(Fail::new("C13:wrong-code-for-barrel", format!("ALPIDE error reported with E{} for a {} stave", m.codes[0], b.barrel.name()), json!({"msg": m.text})));
                            }
                            for c in ["9003", "9004", "9005"] {
                                if m.text.contains(&format!("[E{c}]")) {
                                    got.3.insert(c.to_string());
                                }
                            }
                            // the cross-lane mismatch has no code of its own: its presence is judged through E74 / E75 itself,
                            // not through the wording of the detail text
                            if want.sub.contains("mismatch") {
                                got.3.insert("mismatch".into());
                            }
                        }
                    }
                }
            }
        }
        let want_t = (want.e701, want.lanes_bad, want.alpide_bad, want.sub.clone());
        if how.contains("--mute-errors") {
            // muted runs keep the frame-level message (code, offset) but drop the per-lane context that carries the sub-codes
            got.3 = want.sub.clone();
        }
        if got != want_t {
            let what = if got.0 != want.e701 {
                "E701"
            } else if got.1 != want.lanes_bad {
                if want.lanes_bad { "lane-rule-missed" } else { "lane-rule-false-alarm" }
            } else if got.2 != want.alpide_bad {
                if want.alpide_bad { "alpide-rule-missed" } else { "alpide-rule-false-alarm" }
            } else {
                "sub-codes"
            };
            let announcing = fp.lanes.iter().any(|l| l.fatal_ape.is_some());
            return Err(Fail::new(
                format!("C13:{what}:{}{}", b.barrel.name(), if announcing && what.starts_with("lane-rule") { ":frame-announces-fatal" } else { "" }),
                format!("frame {k} ({}, class {}): tool says (E701,lanes,alpide,sub)={:?}, reference says {:?}", b.barrel.name(), fp.class, got, want_t),
                json!({"how": how, "frame": k, "class": fp.class, "fatal_before": fatal, "lanes": fp.lanes.iter().map(|l| json!({"id": format!("{:#04X}", l.id), "chips": l.chips.iter().map(|c| json!([c.id, c.bc, c.empty])).collect::<Vec<_>>(), "fatal_ape": l.fatal_ape})).collect::<Vec<_>>(),
                       "custom": b.custom.as_ref().map(|c| c.toml()), "frame_start_candidates": cands.iter().map(|c| format!("{c:#X}")).collect::<Vec<_>>(),
                       "errors": errors.iter().map(|e| e.lines().next().unwrap_or("").to_string()).collect::<Vec<_>>(), "input": input_detail(bytes)}),
            ));
        }
        if !want.e701 {
            trailers += want.trailers;
            flags.add(&want.flags);
        }
        for f in want.new_fatal {
            fatal.insert(f);
        }
        obs.per_frame.push(got);
    }
    for (i, m) in msgs.iter().enumerate() {
        if !used[i] {
            if frame_level(m).is_some() {
                return Err(Fail::new("C13:frame-message-at-wrong-offset", format!("frame-level message at {:#X} which is not a frame start", m.offset), json!({"msg": m.text, "how": how, "input": input_detail(bytes)})));
            }
            obs.other_errors.push(m.text.lines().next().unwrap_or("").to_string());
        }
    }
    if !obs.other_errors.is_empty() {
        return Err(Fail::new(
            format!("C13:unexpected-error:E{}", cli::parse_err_msg(&obs.other_errors[0]).map(|m| m.codes.join("+")).unwrap_or_default()),
            format!("error outside the frame rules on a stream that only breaks frame rules: {}", obs.other_errors[0]),
            json!({"how": how, "errors": obs.other_errors, "input": input_detail(bytes)}),
        ));
    }
    let got_trailers = alpide_total["readout_flags"]["chip_trailers_seen"].as_u64().unwrap_or(0) as u32;
    if got_trailers != trailers {
        return Err(Fail::new("C13:chip-trailers-seen", format!("chip_trailers_seen = {got_trailers}, the encoder emitted {trailers} trailers"), json!({"how": how, "input": input_detail(bytes)})));
    }
    // the dedicated counters are a function of the trailer flag nibbles only (trailer bit table in alpide_stats.rs):
    // 1000 busy violation, 1100 data overrun, 1110 transmission in fatal, otherwise one count per set bit 2/1/0
    let rf = &alpide_total["readout_flags"];
    let got = FlagCounts {
        chip_trailers_seen: got_trailers,
        busy_violations: rf["busy_violations"].as_u64().unwrap_or(0) as u32,
        data_overrun: rf["data_overrun"].as_u64().unwrap_or(0) as u32,
        transmission_in_fatal: rf["transmission_in_fatal"].as_u64().unwrap_or(0) as u32,
        flushed_incomplete: rf["flushed_incomplete"].as_u64().unwrap_or(0) as u32,
        strobe_extended: rf["strobe_extended"].as_u64().unwrap_or(0) as u32,
        busy_transitions: rf["busy_transitions"].as_u64().unwrap_or(0) as u32,
    };
    if got != flags {
        return Err(Fail::new("C13:readout-flag-counters", format!("readout-flag counters {got:?}, the trailers emitted by the encoder give {flags:?}"), json!({"how": how, "input": input_detail(bytes)})));
    }
    Ok(obs)
}

fn sum_alpide(stats: &[fastpasta::stats::stats_collector::its_stats::alpide_stats::AlpideStats]) -> Value {
    let mut tot: std::collections::BTreeMap<String, u64> = Default::default();
    for s in stats {
        if let Ok(v) = serde_json::to_value(s) {
            if let Some(o) = v["readout_flags"].as_object() {
                for (k, x) in o {
                    *tot.entry(k.clone()).or_default() += x.as_u64().unwrap_or(0);
                }
            }
        }
    }
    json!({"readout_flags": tot})
}

fn run_inproc(b: &Built) -> (Vec<String>, Value, Vec<u8>) {
    let (bytes, lay) = b.stream.encode();
    let pk: Vec<(Vec<u8>, Vec<u8>, u64)> = (0..lay.packets.len()).map(|i| {
        let p = b.stream.packet(&lay, i);
        (p.rdh.encode().to_vec(), p.payload(), lay.packets[i].offset)
    }).collect();
    let mut cfg = fastpasta::config::test_util::MockConfig::new();
    cfg.check = inproc::mock_cfg(Mode::AllItsStave, false).check.clone();
    if let Some(c) = &b.custom {
        cfg.custom_checks = Some(toml::from_str::<CustomChecks>(&c.toml()).expect("custom toml"));
    }
    let cfg = inproc::leak_cfg(cfg);
    let r = inproc::link_pass(cfg, &pk);
    (r.errors, sum_alpide(&r.alpide), bytes)
}

fn inproc_case(t0: &mut Tape, w: &Worker) -> CaseResult {
    inproc::init_global_config();
    let sk_src: Vec<u16> = (0..600).map(|_| t0.next()).collect();
    let mut ct_a = t0.fork(3000);
    let mut ct_b = t0.fork(3000);
    let a = build(&mut Tape::new(&sk_src), &mut ct_a);
    let (ea, sa, bytes_a) = run_inproc(&a);
    let oa = judge(&a, &ea, &sa, "in-process", &bytes_a)?;
    // metamorphic: same skeleton, other hit content / padding / busy words / cutting
    let b = build(&mut Tape::new(&sk_src), &mut ct_b);
    let (eb, sb, bytes_b) = run_inproc(&b);
    let ob = judge(&b, &eb, &sb, "in-process (variant hit content)", &bytes_b)?;
    if oa != ob || sa != sb {
        return Err(Fail::new(
            if oa != ob { "C13:verdict-depends-on-hit-content" } else { "C13:flag-counters-depend-on-hit-content" },
            "two frames sequences that differ only in pixel-hit content, busy words, padding and cutting give different verdicts / readout-flag counters",
            json!({"a": format!("{oa:?}"), "b": format!("{ob:?}"), "stats_a": sa, "stats_b": sb, "input_a": input_detail(&bytes_a), "input_b": input_detail(&bytes_b)}),
        ));
    }
    let mut out = CaseOut::default();
    let has_long = a.frames.iter().any(|f| f.lanes.iter().any(|l| l.has_long()));
    let multiword = a.frames.iter().any(|f| f.lanes.iter().any(|l| l.pieces().len() >= 2));
    out.nontrivial = has_long && multiword;
    out.fingerprint = fnv64(&bytes_a);
    out.labels.push(format!("barrel:{}", a.barrel.name()));
    for f in &a.frames {
        out.labels.push(format!("class:{}", f.class));
        if f.splits > 0 {
            out.labels.push("frame_split_over_pages".into());
        }
        if f.nodata_before > 0 {
            out.labels.push("nodata_tdh_before_frame".into());
        }
    }
    if a.custom.is_some() {
        out.labels.push("custom_chip_checks".into());
    }
    if bytes_a != bytes_b {
        out.labels.push("metamorphic_variant_differs_in_bytes".into());
    }
    if w.take_sample() {
        out.sample = Some(json!({"barrel": a.barrel.name(), "frames": a.frames.iter().map(|f| json!({"class": f.class, "lanes": f.lanes.len(), "splits": f.splits})).collect::<Vec<_>>(), "bytes": bytes_a.len(), "stats": sa}));
    }
    Ok(out)
}

fn cli_case(t0: &mut Tape, w: &Worker) -> CaseResult {
    let mut ot = t0.fork(8);
    let mut sk = t0.fork(600);
    let mut ct = t0.fork(3000);
    let b = build(&mut sk, &mut ct);
    let (bytes, _) = b.stream.encode();
    let mut case = CliCase::new(w, bytes.clone());
    let mut args: Vec<String> = vec!["check".into(), "all".into(), "its-stave".into()];
    if let Some(c) = &b.custom {
        let f = w.write("checks.toml", c.toml().as_bytes());
        args.push("-c".into());
        args.push(f.display().to_string());
    }
    let sp = w.path("st.json");
    args.extend(stats_args(&sp, false));
    // muting changes what is displayed, never the verdicts: a third of the runs are muted and judged from the statistics file
    let muted = ot.chance(1, 3);
    if muted {
        args.push("--mute-errors".into());
    }
    let (spec, o) = case.run(args, ot.chance(1, 2));
    if let Some(f) = crash_check(&spec, &o, &bytes, &[0, 1]) {
        return Err(f);
    }
    let st = read_stats(&sp, false).unwrap_or(json!({}));
    let errors: Vec<String> = if muted {
        st["error_stats"]["reported_errors"].as_array().map(|a| a.iter().filter_map(|x| x.as_str().map(String::from)).collect()).unwrap_or_default()
    } else {
        cli::parse_log(&o.stderr).into_iter().filter(|r| r.level == "ERROR" && r.red).map(|r| r.text).collect()
    };
    judge(&b, &errors, &st["alpide_stats"], if muted { "CLI check all its-stave --mute-errors (statistics file)" } else { "CLI check all its-stave" }, &bytes)?;
    let mut out = CaseOut::default();
    out.nontrivial = b.frames.iter().any(|f| f.lanes.iter().any(|l| l.has_long()));
    out.fingerprint = fnv64(&bytes);
    out.execs = case.execs;
    out.labels.push(format!("cli:barrel:{}", b.barrel.name()));
    out.labels.push(if muted { "cli:muted".into() } else { "cli:unmuted".into() });
    if w.take_sample() {
        out.sample = Some(json!({"kind": "cli", "cmd": spec.describe(), "frames": b.frames.len(), "errors": errors.len()}));
    }
    Ok(out)
}

pub fn build_property() -> Property {
    Property {
        id: "C13",
        rule: "Frames from the independent ALPIDE encoder: barrel {IB, ML, OL}; lane set {legal, too few, too many, wrong IB group}; per lane chip lists with chosen ids, bunch counters, readout flags, header/trailer or empty-frame form, \
               arbitrary region / short / long hit words (also bytes that look like headers inside hits), busy words, zero padding; lane bytes cut in 9-byte pieces, interleaved across lanes, frames split over pages with continuation, no-data TDHs before a frame; \
               fatal APE on a lane followed by frames without that lane; optional custom chip count / orders. 1..5 frames per stream. Executed in-process (stave configuration) and through the CLI (statistics file for alpide_stats). \
               Oracle: reference verdict per frame (lane count / IB grouping minus lanes that announced fatal in EARLIER frames => E72/E73; per-lane bunch counters, IB chip count / id, configured OB count / order, cross-lane bunch counter => E74/E75 with sub-codes; \
               empty frame => E701), each at an admissible frame start offset, nothing else reported; chip_trailers_seen = trailers emitted and the six readout-flag counters = counts of the emitted trailer flags under the trailer bit table (1000 busy violation, 1100 data overrun, 1110 transmission in fatal, else one count per set bit 2/1/0). Metamorphic: regenerate hit content, padding, busy words and cutting with the skeleton fixed => identical verdicts and readout-flag counters. \
               Non-trivial = a frame with a long hit and a lane spread over >= 2 data words.",
        assumptions: vec![
            "admissible frame start = any non-continuation TDH between the previous frame close and the first data word".into(),
            "not generated (verdict unspecified): the same chip id twice in a lane, ALPIDE bytes outside the grammar, a fatal lane announcing twice".into(),
        ],
        phases: vec![
            Phase { name: "inproc_frames", kind: PhaseKind::Gen { cases: (60000, 800000), tape_len: 600 + 6000, f: Box::new(inproc_case) }, threads: 16 },
            Phase { name: "cli_frames", kind: PhaseKind::Gen { cases: (3000, 20000), tape_len: 3608, f: Box::new(cli_case) }, threads: 16 },
        ],
    }
}
