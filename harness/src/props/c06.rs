//! C06 - each link is validated as if it were alone

use super::common::*;
use crate::cli;
use crate::engine::*;
use crate::gen::{self, ConfOpts, MutOpts};
use crate::inproc::{self, Mode};
use crate::model::*;
use crate::tape::{fnv64, Tape};
use regex::Regex;
use serde_json::json;
use std::collections::BTreeMap;
use std::sync::OnceLock;

fn group_key(r: &Rdh, mode: Mode) -> u32 {
    if mode.stave() {
        r.fee_id as u32
    } else {
        r.link_id as u32
    }
}

/// (rdh bytes, payload, offset) per dispatch group, in file order
fn groups_of(bytes: &[u8], mode: Mode, keep: &dyn Fn(&Rdh) -> bool) -> BTreeMap<u32, Vec<(Vec<u8>, Vec<u8>, u64)>> {
    let (walked, _) = walk(bytes);
    let mut g: BTreeMap<u32, Vec<(Vec<u8>, Vec<u8>, u64)>> = BTreeMap::new();
    for w in walked {
        if !keep(&w.rdh) {
            continue;
        }
        let payload = if mode.its() { bytes[w.payload_start..w.payload_end].to_vec() } else { vec![] };
        g.entry(group_key(&w.rdh, mode)).or_default().push((bytes[w.offset as usize..w.offset as usize + 64].to_vec(), payload, w.offset));
    }
    g
}

/// documented pre-check on the very first RDH0 + known system id
fn first_rdh0_ok(bytes: &[u8]) -> bool {
    if bytes.len() < 64 {
        return false;
    }
    let r = Rdh::decode(&bytes[..64]);
    r.header_size == 0x40 && r.fee_id & 0x8CC0 == 0 && r.layer() <= 6 && r.stave() <= 47 && r.priority == 0 && r.rdh0_reserved == 0 && (3..=100).contains(&r.version) && KNOWN_SYSTEM_IDS.contains(&r.system_id)
}

fn offset_of(msg: &str) -> u64 {
    cli::parse_err_msg(msg).map(|m| m.offset).unwrap_or(u64::MAX)
}

/// one sequential pass per group, merged by a stable sort on the offset
fn sequential_reference(bytes: &[u8], mode: Mode, keep: &dyn Fn(&Rdh) -> bool) -> Result<(Vec<String>, BTreeMap<u32, Vec<String>>), String> {
    let cfg = inproc::mock_cfg(mode, false);
    let mut all: Vec<String> = vec![];
    let mut per: BTreeMap<u32, Vec<String>> = BTreeMap::new();
    for (k, pk) in groups_of(bytes, mode, keep) {
        let r = inproc::catch(std::panic::AssertUnwindSafe(|| inproc::link_pass(cfg, &pk)))?;
        per.insert(k, r.errors.clone());
        all.extend(r.errors);
    }
    all.sort_by_key(|m| offset_of(m));
    Ok((all, per))
}

/// rewrite absolute offsets (leading one and `ending at 0x..`) to (packet index in group, offset inside packet)
fn normalise(msg: &str, starts: &[(u64, usize)]) -> String {
    static RE: OnceLock<Regex> = OnceLock::new();
    let re = RE.get_or_init(|| Regex::new(r"(^0x|ending at 0x)([0-9A-F]+)").unwrap());
    re.replace_all(msg, |c: &regex::Captures| {
        let o = u64::from_str_radix(&c[2], 16).unwrap_or(0);
        let mut idx = usize::MAX;
        let mut rel = o;
        for (i, (s, len)) in starts.iter().enumerate() {
            if o >= *s && o < *s + *len as u64 {
                idx = i;
                rel = o - *s;
            }
        }
        format!("{}@{}+{:#X}", if c[1].starts_with("ending") { "ending at " } else { "" }, idx, rel)
    })
    .into_owned()
}

fn cli_errors(case: &mut CliCase, w: &Worker, mode: Mode, extra: &[String], stdin: bool) -> Result<(crate::cli::RunSpec, Vec<String>), Fail> {
    let sp = w.path("st.json");
    let mut args = mode.args();
    args.extend(extra.iter().cloned());
    args.extend(stats_args(&sp, false));
    let (spec, o) = case.run(args, stdin);
    if o.timed_out || o.crash_signature().is_some() {
        return Err(Fail::new(format!("C06:crash:{}", o.crash_signature().unwrap_or_else(|| "hang".into())), "crash or hang", json!({"cmd": spec.describe(), "out": o.brief(), "input": input_detail(&case.data)})));
    }
    let st = read_stats(&sp, false).unwrap_or(json!({}));
    let v = st["error_stats"]["reported_errors"].as_array().map(|a| a.iter().filter_map(|x| x.as_str().map(String::from)).collect()).unwrap_or_default();
    Ok((spec, v))
}

fn first_diff(a: &[String], b: &[String]) -> (usize, Option<String>, Option<String>) {
    let i = a.iter().zip(b.iter()).position(|(x, y)| x != y).unwrap_or(a.len().min(b.len()));
    (i, a.get(i).map(|s| s.lines().next().unwrap_or("").to_string()), b.get(i).map(|s| s.lines().next().unwrap_or("").to_string()))
}

fn case(t0: &mut Tape, w: &Worker) -> CaseResult {
    inproc::init_global_config();
    let mut ot = t0.fork(64);
    let mut out = CaseOut::default();
    let mut cs = gen::gen_conf_stream(t0, &ConfOpts { max_links: 6, min_links: 2, max_hbfs: 3, big_16: 1, allow_fatal_lanes: true, ..Default::default() });
    let corrupted = ot.chance(3, 4);
    if corrupted {
        let mut mt = t0.fork(400);
        let n = 2 + mt.below(14);
        gen::mutate_stream(&mut mt, &mut cs.stream, &MutOpts { protect_first: true, keep_framing: true, keep_layout: true }, n, &mut out.labels);
    }
    let mode = *ot.pick(&[Mode::AllIts, Mode::AllItsStave, Mode::SanityIts, Mode::All]);
    // a corruption may change a packet's dispatch key (link id, FEE ID in stave mode): the "links" whose order the
    // interleavings must preserve are the groups by the key found in the bytes
    {
        let mut groups: BTreeMap<u32, Vec<Packet>> = BTreeMap::new();
        let mut first_seen: Vec<u32> = vec![];
        for l in &cs.stream.links {
            for p in &l.packets {
                let k = group_key(&p.rdh, mode);
                if !first_seen.contains(&k) {
                    first_seen.push(k);
                }
                groups.entry(k).or_default().push(p.clone());
            }
        }
        cs.stream.links = first_seen.iter().map(|k| Link { packets: groups.remove(k).unwrap(), barrel: Barrel::Inner, lane_ids: vec![] }).collect();
    }
    // a further link that carries RDH-only packets (no payload at all): skipped or analysed, such packets must not
    // disturb what is reported for the other links (offsets included)
    if ot.chance(1, 3) && !cs.stream.links.is_empty() {
        let used_links: Vec<u8> = cs.stream.links.iter().flat_map(|l| l.packets.iter().map(|p| p.rdh.link_id)).collect();
        let used_fees: Vec<u16> = cs.stream.links.iter().flat_map(|l| l.packets.iter().map(|p| p.rdh.fee_id)).collect();
        let base = cs.stream.links[0].packets[0].rdh.clone();
        let link_id = (0..=255u8).find(|l| !used_links.contains(l));
        let fee_id = [0x0100u16, 0x0200, 0x0300, 0x0001, 0x0002, 0x0003].iter().map(|x| base.fee_id ^ x).find(|f| !used_fees.contains(f) && (f & 0x3F) <= 47);
        if let (Some(link_id), Some(fee_id)) = (link_id, fee_id) {
            let n_hbf = 1 + ot.below(4);
            let mut packets = vec![];
            for h in 0..n_hbf {
                for page in 0..2u16 {
                    let mut r = base.clone();
                    r.link_id = link_id;
                    r.fee_id = fee_id;
                    r.orbit = base.orbit.wrapping_add(h as u32);
                    r.pages_counter = page;
                    r.stop_bit = page as u8;
                    let mut p = Packet::new(r);
                    p.fix_sizes();
                    packets.push(p);
                }
            }
            cs.stream.links.push(Link { packets, barrel: Barrel::Inner, lane_ids: vec![] });
            out.labels.push("link_of_payloadless_packets".into());
        }
    }
    let lens: Vec<usize> = cs.stream.links.iter().map(|l| l.packets.len()).collect();
    let orders = [order_contiguous(&lens), order_round_robin(&lens), order_random(&lens, &mut ot), order_random(&lens, &mut ot)];
    let mut normalised_per_order: Vec<BTreeMap<u32, Vec<String>>> = vec![];
    let mut execs = 0u64;
    let mut any_errors = false;
    let mut fp = 0u64;
    for (oi, order) in orders.iter().enumerate() {
        cs.stream.order = order.clone();
        let (bytes, _lay) = cs.stream.encode();
        fp ^= fnv64(&bytes).rotate_left(oi as u32);
        if !first_rdh0_ok(&bytes) {
            out.excluded.push("interleaving whose first packet fails the documented RDH0 pre-check (input refused by design)".into());
            continue;
        }
        let (reference, per) = sequential_reference(&bytes, mode, &|_| true).map_err(|p| Fail::new("C06:inproc-panic", format!("sequential pass panicked: {p}"), json!({"input": input_detail(&bytes)})))?;
        any_errors |= !reference.is_empty();
        let mut case = CliCase::new(w, bytes.clone());
        let stdin = ot.chance(1, 2);
        let (spec, got) = cli_errors(&mut case, w, mode, &[], stdin)?;
        if got != reference {
            let (i, a, b) = first_diff(&got, &reference);
            return Err(Fail::new(
                format!("C06:full-run-vs-sequential-passes:{}", mode.name()),
                format!("{}: the full run reports {} messages, one sequential pass per link gives {} (first difference at {i})", mode.name(), got.len(), reference.len()),
                json!({"interleaving": oi, "full_run": a, "sequential": b, "cmd": spec.describe(), "input": input_detail(&bytes)}),
            ));
        }
        // normalised per-group results for the cross-interleaving comparison
        let (walked, _) = walk(&bytes);
        let mut norm: BTreeMap<u32, Vec<String>> = BTreeMap::new();
        for (k, msgs) in &per {
            let starts: Vec<(u64, usize)> = walked.iter().filter(|x| group_key(&x.rdh, mode) == *k).map(|x| (x.offset, (x.payload_end as u64 - x.offset) as usize)).collect();
            norm.insert(*k, msgs.iter().map(|m| normalise(m, &starts)).collect());
        }
        normalised_per_order.push(norm);
        // filters and physical extraction on the first two interleavings
        if oi < 2 {
            let rdhs: Vec<Rdh> = walked.iter().map(|x| x.rdh.clone()).collect();
            let pickr = rdhs[ot.below(rdhs.len())].clone();
            for f in [Filter::Link(pickr.link_id), Filter::Fee(pickr.fee_id), Filter::Stave(pickr.layer(), pickr.stave())] {
                // the first matching packet becomes the first analysed one: it must carry a known system id,
                // otherwise processing stops with a fatal message by design
                if let Some(first) = rdhs.iter().find(|r| f.matches(r)) {
                    if !KNOWN_SYSTEM_IDS.contains(&first.system_id) {
                        out.excluded.push("filter whose first matching packet has an unknown system id (fatal stop by design)".into());
                        continue;
                    }
                }
                let (fref, _) = sequential_reference(&bytes, mode, &|r| f.matches(r)).map_err(|p| Fail::new("C06:inproc-panic", p, json!({})))?;
                let (fspec, fgot) = cli_errors(&mut case, w, mode, &f.args(), !stdin)?;
                if fgot != fref {
                    let (i, a, b) = first_diff(&fgot, &fref);
                    return Err(Fail::new(
                        format!("C06:filter-run-vs-sequential-pass:{}:{}", f.label(), mode.name()),
                        format!("{} {:?}: {} messages, a sequential pass over the selected packets gives {} (first difference at {i})", mode.name(), f, fgot.len(), fref.len()),
                        json!({"filtered_run": a, "sequential": b, "cmd": fspec.describe(), "input": input_detail(&bytes)}),
                    ));
                }
            }
            // physically extracted single group
            let key = group_key(&pickr, mode);
            let mut extracted = vec![];
            for x in &walked {
                if group_key(&x.rdh, mode) == key {
                    extracted.extend_from_slice(&bytes[x.offset as usize..x.payload_end]);
                }
            }
            if !first_rdh0_ok(&extracted) {
                continue;
            }
            let (eref, eper) = sequential_reference(&extracted, mode, &|_| true).map_err(|p| Fail::new("C06:inproc-panic", p, json!({})))?;
            let mut ecase = CliCase::new(w, extracted.clone());
            let (espec, egot) = cli_errors(&mut ecase, w, mode, &[], stdin)?;
            execs += ecase.execs;
            if egot != eref {
                let (i, a, b) = first_diff(&egot, &eref);
                return Err(Fail::new(
                    format!("C06:extracted-file-vs-sequential-pass:{}", mode.name()),
                    format!("{} on the extracted single-link file: {} messages vs {} (first difference at {i})", mode.name(), egot.len(), eref.len()),
                    json!({"extracted_run": a, "sequential": b, "cmd": espec.describe(), "input": input_detail(&extracted)}),
                ));
            }
            // and its findings equal the link's findings inside the interleaved file, up to the offsets
            let starts_full: Vec<(u64, usize)> = walked.iter().filter(|x| group_key(&x.rdh, mode) == key).map(|x| (x.offset, (x.payload_end as u64 - x.offset) as usize)).collect();
            let (ew, _) = walk(&extracted);
            let starts_ext: Vec<(u64, usize)> = ew.iter().map(|x| (x.offset, (x.payload_end as u64 - x.offset) as usize)).collect();
            let a: Vec<String> = per.get(&key).cloned().unwrap_or_default().iter().map(|m| normalise(m, &starts_full)).collect();
            let b: Vec<String> = eper.get(&key).cloned().unwrap_or_default().iter().map(|m| normalise(m, &starts_ext)).collect();
            if a != b {
                let (i, x, y) = first_diff(&a, &b);
                return Err(Fail::new(
                    "C06:link-alone-differs-from-link-interleaved",
                    format!("link stored alone vs interleaved: normalised findings differ at {i}"),
                    json!({"interleaved": x, "alone": y, "input": input_detail(&bytes)}),
                ));
            }
        }
        execs += case.execs;
    }
    for k in 1..normalised_per_order.len().max(1) {
        if normalised_per_order[k] != normalised_per_order[0] {
            let key = normalised_per_order[0].keys().find(|x| normalised_per_order[0].get(x) != normalised_per_order[k].get(x)).copied().unwrap_or(0);
            let e = vec![];
            let (i, a, b) = first_diff(normalised_per_order[0].get(&key).unwrap_or(&e), normalised_per_order[k].get(&key).unwrap_or(&e));
            return Err(Fail::new(
                "C06:findings-depend-on-interleaving",
                format!("group {key}: normalised findings differ between interleavings 0 and {k} at {i}"),
                json!({"interleaving0": a, "interleaving_k": b, "mode": mode.name()}),
            ));
        }
    }
    out.labels.push(format!("mode:{}", mode.name()));
    out.labels.push(if corrupted { "corrupted".into() } else { "conforming".into() });
    out.labels.push(format!("links:{}", cs.stream.links.len().min(5)));
    if any_errors {
        out.labels.push("has_errors".into());
    }
    out.nontrivial = cs.stream.links.len() >= 2 && any_errors;
    out.fingerprint = fp ^ mode.idx() as u64;
    out.execs = execs;
    if w.take_sample() {
        out.sample = Some(json!({"mode": mode.name(), "links": cs.stream.links.len(), "packets": cs.stream.n_packets(), "corrupted": corrupted, "cli_runs": execs,
                                 "groups": normalised_per_order.first().cloned().unwrap_or_default().iter().map(|(k, v)| json!({"key": k, "messages": v.len()})).collect::<Vec<_>>()}));
    }
    Ok(out)
}

pub fn build() -> Property {
    Property {
        id: "C06",
        rule: "2..6 links generated independently (G_conf, per-link RDH version / format / barrel), 3/4 of the cases corrupted with 2..15 G_mut edits that keep framing, layout and every link's first RDH0; a third of the streams get one more link that consists of RDH-only packets (no payload); four interleavings of the same sequences \
               (contiguous, round-robin, two random merges). Modes {check all its, check all its-stave, check sanity its, check all}. For every interleaving: the error messages of the full CLI run (statistics file, in order) must EQUAL the stable offset-merge of \
               one in-process sequential pass per link (per FEE ID in stave mode) over that link's packets alone, each handed over with its true offset; the same for runs with --filter-link / --filter-fee / --filter-its-stave and for the physically \
               extracted single-link file; findings normalised to (packet index in link, offset inside packet) must be identical across interleavings and between the link stored alone and interleaved. \
               Non-trivial = >= 2 links and at least one error; distinct by hash of the four encodings x mode.",
        assumptions: vec![
            "the dispatch key is the link id (FEE ID in stave mode) found in the bytes: a corruption that changes it moves the packet to another link by definition".into(),
            "exclusions: RDH0 / framing of a link's first packet are not corrupted; payload layout keeps agreeing with the header's format".into(),
        ],
        phases: vec![Phase { name: "cli_vs_sequential", kind: PhaseKind::Gen { cases: (1200, 8000), tape_len: 64 + 64 + 2000 + 6 * 4000 + 14000 + 400, f: Box::new(case) }, threads: 16 }],
    }
}
