//! C12 - payloads are cut into words correctly; padding is never a word

use super::common::*;
use crate::cli;
use crate::engine::*;
use crate::inproc::{self, Mode};
use crate::model::*;
use crate::tape::{fnv64, Tape};
use alice_protocol_reader::prelude::RdhCru;
use fastpasta::analyze::validators::its::cdp_running::CdpRunningValidator;
use fastpasta::analyze::validators::its::lib::do_payload_checks;
use fastpasta::analyze::validators::lib::preprocess_payload;
use fastpasta::config::test_util::MockConfig;
use fastpasta::stats::StatType;
use serde_json::json;

/// words carry their index in the data bytes, ids never 0xFF; conforming skeleton IHW TDH data.. TDT
fn indexed_words(n: usize) -> Vec<Word> {
    let mut v = vec![];
    for i in 0..n {
        let mut nine = [0u8; 9];
        nine[0] = 0xA0; // chip header
        nine[1] = (i & 0xFF) as u8;
        nine[2] = (i >> 8) as u8 | 0x40;
        nine[3] = 0x11;
        nine[8] = 0x5A; // never 0xFF, and bytes 0..6 of any word are not all zero
        v.push(data_word(0x20 + (i % 3) as u8, &nine));
    }
    v
}

fn build_payload(words: &[Word], fmt0: bool, ff: usize) -> Vec<u8> {
    let mut p = Packet::new(Rdh { format_word: if fmt0 { 0 } else { 2 }, ..Rdh::default() });
    p.words = words.to_vec();
    // format 0 has no padding of its own; a run of more than 15 bytes of 0xFF after the slots is still over-padding
    p.pad = if fmt0 && ff <= 15 { 0 } else { ff };
    p.payload()
}

fn chunk_case(t: &mut Tape, w: &Worker) -> CaseResult {
    let fmt0 = t.chance(1, 2);
    let n = match t.weighted(&[1, 6, 2, 1]) {
        0 => 0,
        1 => 1 + t.below(12),
        2 => t.below(200),
        _ => t.below(701),
    };
    let ff = t.below(41);
    let mut words = indexed_words(n);
    // a (corrupted) last word whose identifier byte is 0xFF, with so little padding behind it that the run of 0xFF
    // stays below a word's length: it is a word and must be examined like any other
    let last_id_ff = !fmt0 && n >= 1 && ff <= 8 && t.chance(1, 6);
    if last_id_ff {
        words[n - 1][9] = 0xFF;
        words[n - 1][8] = 0x00;
    }
    let payload = build_payload(&words, fmt0, ff);
    let detail = |what: String| json!({"what": what, "format0": fmt0, "n_words": n, "trailing_ff": ff, "last_word_id_ff": last_id_ff, "payload_len": payload.len(), "payload_head": crate::tape::hex(&payload[..payload.len().min(64)])});
    let expect = ref_chunk(&payload, fmt0 && n > 0);
    let got = inproc::catch(std::panic::AssertUnwindSafe(|| preprocess_payload(&payload).map(|c| c.map(|x| x[..10].to_vec()).collect::<Vec<_>>())));
    let got = match got {
        Err(p) => return Err(Fail::new("C12:chunker-panic", format!("preprocess_payload panicked: {p}"), detail(p.clone()))),
        Ok(g) => g,
    };
    match (&expect, &got) {
        (Chunked::OverPadded(k), Err(_)) => {
            let _ = k;
        }
        (Chunked::OverPadded(k), Ok(ws)) => {
            return Err(Fail::new("C12:overpadding-not-detected", format!("{k} trailing 0xFF bytes accepted, {} words returned", ws.len()), detail("overpadding".into())));
        }
        (Chunked::Words(_), Err(e)) => {
            return Err(Fail::new("C12:valid-padding-rejected", format!("payload with {ff} trailing 0xFF rejected: {e}"), detail(e.clone())));
        }
        (Chunked::Words(exp), Ok(ws)) => {
            // a format-0 payload is recognised by the zero fill of its first slot; an empty / one-word format-2 payload has none
            let exp_words: Vec<Vec<u8>> = exp.iter().map(|(_, w)| w.to_vec()).collect();
            if *ws != exp_words {
                let i = ws.iter().zip(exp_words.iter()).position(|(a, b)| a != b).unwrap_or(ws.len().min(exp_words.len()));
                let pad_as_word = ws.iter().any(|x| x.iter().all(|b| *b == 0xFF));
                return Err(Fail::new(
                    if pad_as_word { "C12:padding-treated-as-word".to_string() } else { format!("C12:chunks-differ:{}", if ws.len() != exp_words.len() { "count" } else { "content" }) },
                    format!("{} words returned, {} expected; first difference at {i}", ws.len(), exp_words.len()),
                    detail(format!("got {:?} expected {:?}", ws.get(i).map(|x| word_hex(x)), exp_words.get(i).map(|x| word_hex(x)))),
                ));
            }
        }
    }
    let mut out = CaseOut::default();
    out.nontrivial = matches!(ff, 9 | 10 | 15 | 16) || n > 1;
    out.fingerprint = fnv64(&payload) ^ fmt0 as u64;
    out.labels.push(if fmt0 { "format:0".into() } else { "format:2".into() });
    if last_id_ff {
        out.labels.push("last_word_id_ff".into());
    }
    if !fmt0 {
        out.labels.push(format!("ff:{}", if ff <= 16 { ff.to_string() } else { ">16".into() }));
        out.labels.push(format!("size_mod10:{}", payload.len() % 10));
    }
    out.labels.push(format!("size_mod16:{}", payload.len() % 16));
    if w.take_sample() {
        out.sample = Some(detail("sample".into()));
    }
    Ok(out)
}

/// every word examined once, in order: a faulty word at a generated index is reported at its own offset, nothing else
fn examined_once_case(t: &mut Tape, w: &Worker) -> CaseResult {
    inproc::init_global_config();
    let fmt0 = t.chance(1, 2);
    let n_data = 1 + t.below(120);
    let ff = if fmt0 { 0 } else { t.below(16) };
    let r = Rdh { fee_id: fee_id(0, 0, 1), format_word: if fmt0 { 0 } else { 2 }, ..Rdh::default() };
    let tt = (r.trigger_type & 0xFFF) as u16;
    let mut words = vec![ihw(7), tdh(&TdhF { trigger_type: tt, internal: true, no_data: false, continuation: false, bc: r.bc(), orbit: r.orbit })];
    words.extend(indexed_words(n_data));
    words.push(tdt(0, 0, true, false, false));
    let bad = 2 + t.below(n_data);
    let kind = t.below(2);
    if kind == 0 {
        words[bad][9] = 0x1F; // unknown id in data state: E991 + E70
    } else {
        words[bad][9] = 0x29;
    }
    let payload = build_payload(&words, fmt0, ff);
    let cfg: &'static MockConfig = inproc::mock_cfg(Mode::AllIts, false);
    let (tx, rx) = flume::unbounded::<StatType>();
    let mut v: CdpRunningValidator<RdhCru, MockConfig> = CdpRunningValidator::new(cfg, tx.clone());
    let rdh = inproc::load_rdh(&r.encode());
    let base = 0x4000u64;
    do_payload_checks((&rdh, &payload, base), &tx, &mut v).unwrap();
    drop(v);
    drop(tx);
    let slot = if fmt0 { 16 } else { 10 };
    let want_off = base + 64 + (bad * slot) as u64;
    let mut offs = vec![];
    while let Ok(s) = rx.try_recv() {
        if let StatType::Error(e) = s {
            if let Some(m) = cli::parse_err_msg(&e) {
                offs.push((m.offset, m.codes.clone(), m.dump));
            }
        }
    }
    let detail = json!({"format0": fmt0, "n_words": words.len(), "faulty_index": bad, "trailing_ff": ff, "errors": offs.iter().map(|o| format!("{:#X} {:?}", o.0, o.1)).collect::<Vec<_>>()});
    if offs.is_empty() {
        return Err(Fail::new("C12:faulty-word-not-examined", "the faulty word was not reported at all", detail));
    }
    if offs.iter().any(|o| o.0 != want_off) {
        return Err(Fail::new("C12:word-reported-at-wrong-offset", format!("errors not (only) at the faulty word's offset {want_off:#X}"), detail));
    }
    if offs.iter().any(|o| o.2.map(|d| d != words[bad]).unwrap_or(false)) {
        return Err(Fail::new("C12:wrong-word-bytes-examined", "the reported bytes are not the faulty word's", detail));
    }
    let n991 = offs.iter().filter(|o| o.1.contains(&"991".to_string())).count();
    if n991 != 1 {
        return Err(Fail::new("C12:word-examined-not-once", format!("the faulty word was reported {n991} times with E991"), detail));
    }
    let mut out = CaseOut::default();
    out.nontrivial = bad > 2;
    out.fingerprint = fnv64(&payload) ^ (bad as u64) << 32;
    out.labels.push(if fmt0 { "once:format0".into() } else { "once:format2".into() });
    if w.take_sample() {
        out.sample = Some(detail);
    }
    Ok(out)
}

/// over-padded payload: reported once at the RDH, skipped, FSM reset (triple of packets)
fn reset_case(t: &mut Tape, w: &Worker) -> CaseResult {
    inproc::init_global_config();
    let ff = 16 + t.below(25);
    let third_cont = t.chance(1, 2);
    let via_cli = t.chance(1, 4);
    let fmt0 = t.chance(1, 2);
    let mk = |page: u16, words: Vec<Word>, pad: usize| {
        let mut p = Packet::new(Rdh { fee_id: fee_id(0, 0, 1), pages_counter: page, format_word: if fmt0 { 0 } else { 2 }, ..Rdh::default() });
        p.words = words;
        p.pad = pad;
        p.fix_sizes();
        p
    };
    let r0 = Rdh::default();
    let tt = (r0.trigger_type & 0xFFF) as u16;
    let t0 = TdhF { trigger_type: tt, internal: true, no_data: false, continuation: false, bc: r0.bc(), orbit: r0.orbit };
    let nine = [0xA0u8, 1, 0xB0, 0, 0, 0, 0, 0, 0];
    // 1: ends with TDT packet_done = 0  ->  continuation expected next
    let p1 = mk(0, vec![ihw(7), tdh(&t0), data_word(0x20, &nine), tdt(0, 0, false, false, false)], if fmt0 { 0 } else { 3 });
    // 2: over-padded (content would be a legal continuation page)
    let tc = TdhF { continuation: true, ..t0 };
    // shape of the over-padded packet: a page of words + padding / nothing but 0xFF (one 16-byte line, with the stop bit,
    // as the closing page of an HBF would be; or 1..3 lines) / a single word + padding
    let shape = t.weighted(&[3, 2, 2, 2]);
    let mut p2 = match shape {
        0 => mk(1, vec![ihw(7), tdh(&tc), data_word(0x20, &nine), tdt(0, 0, true, false, false)], ff),
        1 => mk(1, vec![], 16),
        2 => mk(1, vec![], 16 * (1 + t.below(3)) + if fmt0 { 0 } else { t.below(2) * 16 }),
        _ => mk(1, vec![ihw(7)], ff),
    };
    if shape == 1 || (shape > 1 && t.chance(1, 2)) {
        p2.rdh.stop_bit = 1;
    }
    let ff = if shape == 0 || shape == 3 { ff } else { p2.payload().len() };
    let stop2 = p2.rdh.stop_bit;
    let shape_name = ["words+padding", "one 0xFF line, stop bit", "only 0xFF lines", "one word+padding"][shape];
    // 3: starts from scratch: IHW + TDH(cont = third_cont)
    let t3 = TdhF { continuation: third_cont, ..t0 };
    let p3 = mk(2, vec![ihw(7), tdh(&t3), data_word(0x20, &nine), tdt(0, 0, true, false, false)], 0);
    let stream = Stream::single(Link { packets: vec![p1, p2, p3], barrel: Barrel::Inner, lane_ids: vec![] });
    let (bytes, lay) = stream.encode();
    let errors: Vec<String> = if via_cli {
        let mut case = CliCase::new(w, bytes.clone());
        let (spec, o) = case.run(vec!["check".into(), "all".into(), "its".into()], t.chance(1, 2));
        if let Some(f) = crash_check(&spec, &o, &bytes, &[0, 1]) {
            return Err(f);
        }
        cli::error_messages(&o.stderr).into_iter().map(|m| m.text).collect()
    } else {
        let pk: Vec<(Vec<u8>, Vec<u8>, u64)> = (0..3).map(|i| {
            let p = stream.packet(&lay, i);
            (p.rdh.encode().to_vec(), p.payload(), lay.packets[i].offset)
        }).collect();
        inproc::link_pass(inproc::mock_cfg(Mode::AllIts, false), &pk).errors
    };
    let o2 = lay.packets[1].offset;
    let o3 = lay.packets[2].offset;
    let detail = json!({"trailing_ff": ff, "overpadded_packet": shape_name, "its_stop_bit": stop2, "third_tdh_continuation": third_cont, "via_cli": via_cli, "errors": errors.iter().map(|e| e.lines().next().unwrap_or("").to_string()).collect::<Vec<_>>(), "input": input_detail(&bytes)});
    let pad_msgs: Vec<&String> = errors.iter().filter(|e| e.contains("Payload error following RDH")).collect();
    if pad_msgs.len() != 1 || !pad_msgs[0].starts_with(&format!("{o2:#X}:")) {
        return Err(Fail::new("C12:overpadding-not-reported-once-at-rdh", format!("{} padding messages (expected exactly one at {o2:#X})", pad_msgs.len()), detail));
    }
    // no word-level message from the skipped payload
    let in_p2 = errors.iter().filter_map(|e| cli::parse_err_msg(e)).filter(|m| m.offset > o2 && m.offset < o3).count();
    if in_p2 > 0 {
        return Err(Fail::new("C12:skipped-payload-examined", format!("{in_p2} word-level messages from the over-padded payload"), detail));
    }
    // third packet judged from the initial state: cont=0 must give no E41; cont=1 must give E42
    let third: Vec<cli::ErrMsg> = errors.iter().filter_map(|e| cli::parse_err_msg(e)).filter(|m| m.offset >= o3).collect();
    let has = |c: &str| third.iter().any(|m| m.codes.contains(&c.to_string()));
    if !third_cont && (has("41") || has("30") || has("40")) {
        return Err(Fail::new("C12:state-not-reset-after-overpadding", "the packet after the over-padded one was not judged from the initial state (E41/E30/E40 reported)", detail));
    }
    if third_cont && !has("42") {
        return Err(Fail::new("C12:state-not-reset-after-overpadding", "continuation TDH after the reset must be reported with E42", detail));
    }
    let mut out = CaseOut::default();
    out.nontrivial = true;
    out.fingerprint = (ff as u64) << 8 | (shape as u64) << 4 | (stop2 as u64) << 3 | (fmt0 as u64) << 2 | (third_cont as u64) << 1 | via_cli as u64;
    out.execs = via_cli as u64;
    out.labels.push(format!("reset:{}:{}", if via_cli { "cli" } else { "inproc" }, if fmt0 { "format0" } else { "format2" }));
    out.labels.push(format!("reset:shape:{shape_name}"));
    if w.take_sample() {
        out.sample = Some(detail);
    }
    Ok(out)
}

/// CLI: the data view prints one row per word, never a row made of padding
fn cli_view_case(t: &mut Tape, w: &Worker) -> CaseResult {
    let fmt0 = t.chance(1, 2);
    let n = 1 + t.below(300);
    let ff = if fmt0 { 0 } else { t.below(16) };
    let r = Rdh { fee_id: fee_id(0, 0, 1), format_word: if fmt0 { 0 } else { 2 }, ..Rdh::default() };
    let mut p = Packet::new(r);
    p.words = indexed_words(n);
    p.pad = ff;
    p.fix_sizes();
    // a third of the cases: a packet of the OTHER data format comes first (each packet is cut and placed by its own format)
    let mixed = t.chance(1, 3);
    let mut packets = vec![];
    if mixed {
        let r0 = Rdh { fee_id: fee_id(0, 0, 1), format_word: if fmt0 { 2 } else { 0 }, ..Rdh::default() };
        let mut p0 = Packet::new(r0);
        p0.words = indexed_words(2);
        // (format 2: bytes 10..15 must not all be zero or the layout reads as 16-byte slots)
        p0.words[1][0] = 0x5A;
        p0.fix_sizes();
        packets.push(p0);
        p.rdh.pages_counter = 1;
    }
    packets.push(p);
    let stream = Stream::single(Link { packets, barrel: Barrel::Inner, lane_ids: vec![] });
    let (bytes, lay) = stream.encode();
    let mut case = CliCase::new(w, bytes.clone());
    let (spec, o) = case.run(vec!["view".into(), "its-readout-frames-data".into(), "-d".into()], t.chance(1, 2));
    if let Some(f) = crash_check(&spec, &o, &bytes, &[0, 1]) {
        return Err(f);
    }
    let re = regex::Regex::new(r"^\s*([0-9A-F]+): DATA \[((?:[0-9A-F]{2} ){9}[0-9A-F]{2})\]").unwrap();
    let rows: Vec<(u64, String)> = cli::strip_ansi(&o.stdout_str()).lines().filter_map(|l| re.captures(l).map(|c| (u64::from_str_radix(&c[1], 16).unwrap_or(0), c[2].to_string()))).collect();
    let mut want: Vec<(u64, String)> = vec![];
    for pk in 0..lay.packets.len() {
        let nw = stream.packet(&lay, pk).words.len();
        want.extend((0..nw).map(|i| (stream.word_offset(&lay, pk, i), word_hex(&stream.packet(&lay, pk).words[i]))));
    }
    if rows != want {
        let i = rows.iter().zip(want.iter()).position(|(a, b)| a != b).unwrap_or(rows.len().min(want.len()));
        return Err(Fail::new(
            if rows.iter().any(|r| r.1.starts_with("FF FF FF FF FF FF FF FF FF")) { "C12:view:padding-row".to_string() } else { format!("C12:view:rows-differ:{}", if rows.len() != want.len() { "count" } else { "content" }) },
            format!("data view: {} rows, {} words; first difference at {i}", rows.len(), want.len()),
            json!({"format0": fmt0, "n_words": n, "trailing_ff": ff, "got": rows.get(i), "want": want.get(i), "cmd": spec.describe(), "input": input_detail(&bytes)}),
        ));
    }
    let mut out = CaseOut::default();
    out.nontrivial = n > 1;
    out.fingerprint = fnv64(&bytes);
    out.execs = case.execs;
    out.labels.push(format!("view:{}", if fmt0 { "format0" } else { "format2" }));
    if mixed {
        out.labels.push("view:other_format_first".into());
    }
    if w.take_sample() {
        out.sample = Some(json!({"kind": "cli view", "format0": fmt0, "n_words": n, "trailing_ff": ff}));
    }
    Ok(out)
}

pub fn build() -> Property {
    Property {
        id: "C12",
        rule: "Data format {0,2} x word count 0..700 x trailing 0xFF run 0..40 (every residue mod 10 and mod 16 of the payload size occurs by construction); words carry their index and never the id 0xFF, except a last word with id 0xFF followed by at most 8 bytes of padding (run of 0xFF shorter than a word: still a word). \
               (1) `preprocess_payload` vs an independent reference chunker: number, order and bytes of words, no word made of padding, run > 15 rejected, run <= 15 accepted; \
               (2) `do_payload_checks` on IHW TDH data* TDT with one faulty word at a generated index: reported exactly once (E991), at its own offset, with its own bytes; \
               (3) the triple (packet ending in TDT done=0 ; over-padded packet ; packet starting IHW + TDH cont=0|1), in-process and through the CLI: exactly one `Payload error following RDH` at the RDH offset, \
               no word-level message from the skipped payload, the third packet judged from the initial state (no E41 / E42 present accordingly); (4) CLI data view: one DATA row per word with offset and bytes, no padding row. \
               Non-trivial = padding in {9,10,15,16} or more than one word with the faulty index > 0.",
        assumptions: vec!["format-0 layout is recognised by the tool from the zero fill of the first slot: an empty format-0 payload has no words either way".into()],
        phases: vec![
            Phase { name: "chunker", kind: PhaseKind::Gen { cases: (300000, 3000000), tape_len: 8, f: Box::new(chunk_case) }, threads: 16 },
            Phase { name: "examined_once", kind: PhaseKind::Gen { cases: (100000, 1000000), tape_len: 8, f: Box::new(examined_once_case) }, threads: 16 },
            Phase { name: "overpadding_reset", kind: PhaseKind::Gen { cases: (4000, 30000), tape_len: 8, f: Box::new(reset_case) }, threads: 16 },
            Phase { name: "cli_data_view", kind: PhaseKind::Gen { cases: (2500, 15000), tape_len: 10, f: Box::new(cli_view_case) }, threads: 16 },
        ],
    }
}
