//! C04 - no input crashes or hangs the tool

use super::common::*;
use crate::cli::{self, Input, RunSpec};
use crate::engine::*;
use crate::gen::{self, ConfOpts, MutOpts};
use crate::model::*;
use crate::tape::{fnv64, Tape};
use serde_json::json;
use std::sync::Arc;
use std::time::Duration;

#[derive(Clone, Debug)]
pub struct Cmd {
    pub args: Vec<String>,
    pub stdin: bool,
    pub e_code: Option<u8>,
    pub label: String,
    pub writes_data_stdout: bool,
}

pub const TOML_KEYS: [&str; 5] = ["cdps", "triggers_pht", "chip_orders_ob", "chip_count_ob", "rdh_version"];

/// a valid TOML custom-checks file with a random subset of keys
pub fn gen_checks_toml(t: &mut Tape) -> String {
    let mut s = String::new();
    if t.chance(1, 2) {
        s.push_str(&format!("cdps = {}\n", t.below(300)));
    } else {
        s.push_str("#cdps = None [ u32 ]\n");
    }
    if t.chance(1, 2) {
        s.push_str(&format!("triggers_pht = {}\n", t.below(20)));
    }
    if t.chance(1, 3) {
        s.push_str("chip_orders_ob = [[0, 1, 2, 3, 4, 5, 6], [8, 9, 10, 11, 12, 13, 14]]\n");
    }
    if t.chance(1, 3) {
        s.push_str(&format!("chip_count_ob = {}\n", 1 + t.below(8)));
    }
    if t.chance(1, 3) {
        s.push_str(&format!("rdh_version = {}\n", 6 + t.below(2)));
    }
    s
}

/// any valid command line (mode x options), given the RDHs that occur in the input (for filter values)
pub fn gen_cmd(t: &mut Tape, w: &Worker, rdhs: &[Rdh]) -> Cmd {
    let mut args: Vec<String> = vec![];
    let kind = t.weighted(&[3, 3, 3, 3, 5, 2, 2, 2, 3]);
    let mut label;
    let mut stave_mode = false;
    let mut is_check = true;
    let mut writes = false;
    match kind {
        0 => {
            args.extend(["check", "sanity"].map(String::from));
            label = "check sanity".to_string();
        }
        1 => {
            args.extend(["check", "all"].map(String::from));
            label = "check all".into();
        }
        2 => {
            args.extend(["check", "sanity", "its"].map(String::from));
            label = "check sanity its".into();
        }
        3 => {
            args.extend(["check", "all", "its"].map(String::from));
            label = "check all its".into();
        }
        4 => {
            args.extend(["check", "all", "its-stave"].map(String::from));
            label = "check all its-stave".into();
            stave_mode = true;
        }
        5 => {
            args.extend(["view", "rdh"].map(String::from));
            label = "view rdh".into();
            is_check = false;
        }
        6 => {
            args.extend(["view", "its-readout-frames"].map(String::from));
            label = "view its-readout-frames".into();
            is_check = false;
        }
        7 => {
            args.extend(["view", "its-readout-frames-data"].map(String::from));
            label = "view its-readout-frames-data".into();
            is_check = false;
        }
        _ => {
            label = "filter-write".into();
            is_check = false;
            writes = true;
        }
    }
    // filter
    let need_filter = writes;
    let mut filter = Filter::None;
    if need_filter || t.chance(1, 3) {
        filter = gen::gen_filter(t, rdhs, false);
        args.extend(filter.args());
        label.push_str(match filter {
            Filter::Link(_) => " -f",
            Filter::Fee(_) => " -F",
            Filter::Stave(..) => " -s",
            Filter::None => "",
        });
    }
    if writes {
        match t.below(3) {
            0 => {
                args.push("-o".into());
                args.push(w.path("out.raw").display().to_string());
                writes = false;
            }
            1 => {
                args.push("-o".into());
                args.push("stdout".into());
            }
            _ => {}
        }
    }
    if !need_filter && filter != Filter::None && t.chance(1, 3) {
        // an output destination next to a check or view is accepted (and documented as ignored)
        args.push("-o".into());
        args.push(w.path("ignored_out.raw").display().to_string());
        label.push_str(" -o(ignored)");
    }
    if kind >= 5 && kind <= 7 && t.chance(1, 2) {
        args.push("-d".into());
    }
    if stave_mode && matches!(filter, Filter::Stave(..)) && t.chance(1, 2) {
        args.push("-p".into());
        args.push(t.below(3564).to_string());
        label.push_str(" -p");
    }
    let mut e_code = None;
    if t.chance(1, 2) {
        let n = 1 + t.below(255) as u8;
        args.push("-E".into());
        args.push(n.to_string());
        e_code = Some(n);
    }
    if t.chance(1, 4) {
        args.push("-m".into());
        label.push_str(" -m");
    }
    if t.chance(1, 5) {
        args.push("-e".into());
        args.push((1 + t.below(20)).to_string());
        label.push_str(" -e");
    }
    if is_check && t.chance(1, 5) {
        let f = w.write("checks.toml", gen_checks_toml(t).as_bytes());
        args.push("-c".into());
        args.push(f.display().to_string());
        label.push_str(" -c");
    }
    if t.chance(1, 4) {
        let toml_fmt = t.chance(1, 2);
        let p = w.path(if toml_fmt { "st.toml" } else { "st.json" });
        args.extend(stats_args(&p, toml_fmt));
        label.push_str(" -S");
    }
    if t.chance(1, 6) {
        // -w is a multi-value option: must come last before nothing else positional
        args.push("-v".into());
        args.push(t.below(5).to_string());
    }
    if t.chance(1, 5) {
        args.push("-w".into());
        for _ in 0..(1 + t.below(3)) {
            args.push(t.pick(&["10", "11", "100", "30", "40", "44", "440", "70", "99", "991", "9001", "59"]).to_string());
        }
        label.push_str(" -w");
    }
    Cmd {
        args,
        stdin: t.chance(1, 2),
        e_code,
        label,
        writes_data_stdout: writes,
    }
}

pub fn run_cmd(case: &mut CliCase, cmd: &Cmd) -> (RunSpec, cli::RunOut) {
    let mut args = cmd.args.clone();
    let input = if cmd.stdin {
        Input::Pipe(case.data.clone(), 0)
    } else {
        let p = case.file();
        // the input path must come before a trailing multi-value -w
        args.insert(0, p.display().to_string());
        Input::File(p)
    };
    let mut spec = RunSpec::new(args, input);
    spec.timeout = Duration::from_secs(10 + (case.data.len() as u64 >> 20));
    let out = case.run_spec(&spec);
    (spec, out)
}

/// hang rule (DESIGN 2.9): re-execute alone up to 3 times with 60 s; only a consistent hang counts
pub fn confirm_hang(case: &mut CliCase, spec: &RunSpec) -> bool {
    if case.data.len() > 16 << 20 {
        return false;
    }
    let mut s = spec.clone();
    s.timeout = Duration::from_secs(60);
    for _ in 0..3 {
        let o = case.run_spec(&s);
        if !o.timed_out {
            return false;
        }
    }
    true
}

pub fn judge(case: &mut CliCase, cmd: &Cmd, spec: &RunSpec, out: &cli::RunOut) -> Result<(), Fail> {
    let data = case.data.clone();
    if out.timed_out {
        if confirm_hang(case, spec) {
            return Err(Fail::new(
                format!("hang:{}", cmd.label.split(' ').take(3).collect::<Vec<_>>().join(" ")),
                "process does not end (60 s, three attempts)",
                json!({"cmd": spec.describe(), "input": input_detail(&data)}),
            ));
        }
        return Ok(()); // inconclusive, never a violation
    }
    let mut allowed = vec![0, 1];
    if let Some(n) = cmd.e_code {
        allowed.push(n as i32);
    }
    if let Some(f) = crash_check(spec, out, &data, &allowed) {
        return Err(f);
    }
    Ok(())
}

fn edited_conf(t: &mut Tape, labels: &mut Vec<String>) -> (Vec<u8>, Vec<Rdh>) {
    let mut cs = gen::gen_conf_stream(
        t,
        &ConfOpts {
            max_links: 4,
            max_hbfs: 3,
            big_16: 1,
            ..Default::default()
        },
    );
    let mut mt = t.fork(400);
    let n_edits = 1 + mt.below(6);
    let keep = mt.chance(7, 10); // most cases stay parseable beyond the first RDH
    gen::mutate_stream(
        &mut mt,
        &mut cs.stream,
        &MutOpts {
            protect_first: keep,
            keep_framing: keep,
            keep_layout: false,
        },
        n_edits,
        labels,
    );
    let (mut bytes, lay) = cs.stream.encode();
    let rdhs = rdhs_of(&cs.stream, &lay);
    // raw byte-level edits
    match mt.below(6) {
        0 => {
            labels.push("raw:truncate".into());
            let n = mt.below(bytes.len() + 1);
            bytes.truncate(n);
        }
        1 => {
            labels.push("raw:bitflips".into());
            for _ in 0..(1 + mt.below(8)) {
                if !bytes.is_empty() {
                    let i = mt.below(bytes.len());
                    bytes[i] ^= 1 << mt.below(8);
                }
            }
        }
        2 => {
            labels.push("raw:append_garbage".into());
            let n = mt.below(200);
            bytes.extend(mt.bytes(n));
        }
        _ => {}
    }
    (bytes, rdhs)
}

fn gen_input(t: &mut Tape, labels: &mut Vec<String>) -> (Vec<u8>, Vec<Rdh>) {
    let mut g = t.fork(16);
    match g.weighted(&[8, 2, 3, 5]) {
        0 => {
            labels.push("input:mutated_conf".into());
            edited_conf(t, labels)
        }
        1 => {
            labels.push("input:random_bytes".into());
            let n = match g.below(3) {
                0 => g.below(9),
                1 => 9 + g.below(56),
                _ => 65 + g.below(4032),
            };
            (t.bytes(n), vec![])
        }
        2 => {
            labels.push("input:random_after_valid_rdh0".into());
            let mut r = Rdh {
                version: 7,
                fee_id: fee_id(g.below(7) as u8, 0, g.below(48) as u8),
                ..Rdh::default()
            };
            r.system_id = *g.pick(&KNOWN_SYSTEM_IDS);
            let n = g.below(2000);
            let mut b = r.encode().to_vec();
            let rest = t.bytes(n + 56);
            b[8..64].copy_from_slice(&rest[..56]);
            b.extend_from_slice(&rest[56..]);
            (b, vec![r])
        }
        _ => {
            labels.push("input:well_framed_arbitrary".into());
            let (s, _l) = gen::gen_frame_stream(
                t,
                &gen::FrameOpts {
                    max_packets: 30,
                    word_payload: g.chance(1, 2),
                    max_payload: 800,
                    ..Default::default()
                },
            );
            let (bytes, lay) = s.encode();
            (bytes, rdhs_of(&s, &lay))
        }
    }
}

fn cli_case(t0: &mut Tape, w: &Worker) -> CaseResult {
    let mut ot = t0.fork(96);
    let mut out = CaseOut::default();
    let (bytes, rdhs) = gen_input(t0, &mut out.labels);
    let mut case = CliCase::new(w, bytes);
    // two command lines per input
    for _ in 0..2 {
        let cmd = gen_cmd(&mut ot, w, &rdhs);
        let (spec, o) = run_cmd(&mut case, &cmd);
        judge(&mut case, &cmd, &spec, &o)?;
        out.labels.push(format!("cmd:{}", cmd.label.split(" -").next().unwrap_or("")));
        // got past the first RDH?
        let past_first = o.stdout.len() > 200 || cli::parse_log(&o.stderr).iter().any(|r| r.level == "ERROR" && r.text.starts_with("0x"));
        if past_first {
            out.nontrivial = true;
        }
        if w.take_sample() {
            out.sample = Some(json!({"cmd": spec.describe(), "exit": o.code, "input_len": case.data.len(), "labels": out.labels}));
        }
    }
    out.fingerprint = fnv64(&case.data) ^ fnv64(out.labels.join(",").as_bytes());
    out.execs = case.execs;
    out.labels.sort();
    out.labels.dedup();
    Ok(out)
}

/// repository test files with random edits
fn repo_file_case(t: &mut Tape, w: &Worker) -> CaseResult {
    let files = [
        "10_rdh.raw",
        "1_hbf_bad_cdp_structure.raw",
        "1_hbf_bad_dw_ddw0.raw",
        "1_hbf_bad_ihw_tdh.raw",
        "1_hbf_bad_its_payload.raw",
        "1_hbf_bad_tdt.raw",
        "2_hbf_2nd_bad_frame.raw",
        "2_rdh_det_field_v1.21.0.raw",
        "ci_ols_data_1hbf.raw",
        "err_not_hbf.raw",
        "invalid_lane_order_1hbf.raw",
        "o2_rawtf_fee24612_4rdh.raw",
        "rawtf_epn180_l6_1.raw",
        "readout.superpage.1.raw",
        "tdh_no_data.raw",
        "tdh_no_data_ihw.raw",
        "thrs_cdw_links.raw",
    ];
    let name = *t.pick(&files);
    let Ok(mut bytes) = std::fs::read(format!("/repo/tests/test-data/{name}")) else {
        return Ok(CaseOut::default());
    };
    let mut out = CaseOut::default();
    out.labels.push(format!("repo_file:{name}"));
    let (walked, _) = walk(&bytes);
    let rdhs: Vec<Rdh> = walked.iter().map(|w| w.rdh.clone()).collect();
    let n = t.below(6);
    for _ in 0..n {
        let i = t.below(bytes.len());
        match t.below(3) {
            0 => bytes[i] ^= 1 << t.below(8),
            1 => bytes[i] = t.u8(),
            _ => bytes[i] = *t.pick(&[0u8, 0xFF, 0xE0, 0xE8, 0xF0, 0xE4]),
        }
    }
    if t.chance(1, 6) {
        let n = t.below(bytes.len());
        bytes.truncate(n);
    }
    let mut case = CliCase::new(w, bytes);
    let cmd = gen_cmd(t, w, &rdhs);
    let (spec, o) = run_cmd(&mut case, &cmd);
    judge(&mut case, &cmd, &spec, &o)?;
    out.nontrivial = n > 0;
    out.fingerprint = fnv64(&case.data) ^ fnv64(cmd.label.as_bytes());
    out.execs = case.execs;
    let _ = Arc::strong_count(&case.data);
    Ok(out)
}

/// hand-built minimal reproductions of every crash that was found and repaired (stable regression tier,
/// independent of the generators' tape layout)
fn regress_inputs() -> Vec<(&'static str, Vec<u8>, Vec<&'static str>)> {
    let mut v: Vec<(&'static str, Vec<u8>, Vec<&'static str>)> = vec![];
    v.push(("empty input", vec![], vec!["check", "sanity"]));
    v.push(("3 bytes", vec![7, 0x40, 0], vec!["view", "rdh"]));
    // layer 7 on the second packet
    let mk = |fee: u16, page: u16, stop: u8, words: Vec<Word>, fmt: u8| {
        let mut p = Packet::new(Rdh { fee_id: fee, pages_counter: page, stop_bit: stop, format_word: fmt as u64, ..Rdh::default() });
        p.words = words;
        p.fix_sizes();
        p.encode()
    };
    let mut a = mk(fee_id(0, 0, 1), 0, 0, vec![], 2);
    a.extend(mk(0x7001, 1, 1, vec![], 2));
    v.push(("layer 7 in view", a.clone(), vec!["view", "its-readout-frames"]));
    v.push(("layer 7 in stave check", a, vec!["check", "all", "its-stave"]));
    // data word while no frame is open: first TDH has continuation = 1
    let t = TdhF { trigger_type: 0x6A03 & 0xFFF, internal: true, no_data: false, continuation: true, bc: 0, orbit: 0 };
    let b = mk(fee_id(0, 0, 1), 0, 0, vec![ihw(7), tdh(&t), data_word(0x20, &[0xA0, 1, 0xB0, 0, 0, 0, 0, 0, 0]), tdt(0, 0, true, false, false)], 2);
    v.push(("data outside frame", b, vec!["check", "all", "its-stave"]));
    // outer barrel lane with zeros only
    let t2 = TdhF { continuation: false, ..t };
    let c = mk(fee_id(5, 0, 1), 0, 0, vec![ihw(0x0FFF_FFFF), tdh(&t2), data_word(0x40, &[0; 9]), tdt(0, 0, true, false, false)], 2);
    v.push(("OB lane without chip header", c, vec!["check", "all", "its-stave"]));
    // IB lane 14 (invalid id 0x2E) announcing fatal, then a frame with a matching lane count
    let f1 = vec![
        ihw(0x0FFF_FFFF), tdh(&t2),
        data_word(0x20, &[0xA0, 1, 0xB0, 0, 0, 0, 0, 0, 0]), data_word(0x21, &[0xA1, 1, 0xB0, 0, 0, 0, 0, 0, 0]),
        data_word(0x2E, &[0xF4, 0, 0, 0, 0, 0, 0, 0, 0]), tdt(0, 0, true, false, false),
        tdh(&t2), data_word(0x20, &[0xA0, 1, 0xB0, 0, 0, 0, 0, 0, 0]), data_word(0x21, &[0xA1, 1, 0xB0, 0, 0, 0, 0, 0, 0]),
        tdt(0, 0, true, false, false),
    ];
    v.push(("IB fatal lane >= 9", mk(fee_id(0, 0, 1), 0, 0, f1, 2), vec!["check", "all", "its-stave"]));
    // first packet read is ITS, the filter selects packets of another known system that carry a frame error
    {
        let mut a = mk(fee_id(0, 0, 1), 0, 0, vec![], 2);
        let mut p = Packet::new(Rdh { fee_id: fee_id(1, 0, 3), link_id: 1, system_id: 3, ..Rdh::default() });
        p.words = vec![ihw(7), tdh(&t2), tdt(0, 0, true, false, false)];
        p.fix_sizes();
        a.extend(p.encode());
        v.push(("stats thread: FEE ID of unrecorded stave", a, vec!["check", "all", "its-stave", "-f", "1"]));
    }
    v
}

fn regress_case(i: u64, w: &Worker) -> CaseResult {
    let all = regress_inputs();
    let (name, bytes, args) = &all[i as usize % all.len()];
    let stdin = (i as usize / all.len()) % 2 == 1;
    let mut case = CliCase::new(w, bytes.clone());
    let cmd = Cmd { args: args.iter().map(|s| s.to_string()).collect(), stdin, e_code: None, label: format!("regress:{name}"), writes_data_stdout: false };
    let (spec, o) = run_cmd(&mut case, &cmd);
    judge(&mut case, &cmd, &spec, &o)?;
    let mut out = CaseOut::default();
    out.labels.push(format!("regress:{name}"));
    out.nontrivial = true;
    out.fingerprint = fnv64(bytes) ^ i;
    out.execs = case.execs;
    Ok(out)
}

/// inputs large enough for the inter-thread queues to fill (more than 100 batches of 100 packets), with errors, an
/// error cap or a fatal framing error in mid-stream, under a random valid command line
fn large_case(t0: &mut Tape, w: &Worker) -> CaseResult {
    let mut ot = t0.fork(120);
    let mut out = CaseOut::default();
    let n_hbf = 6_000 + ot.below(w.tier.pick(8_000, 24_000));
    let n_links = 1 + ot.below(2);
    let error_every = *ot.pick(&[1usize, 3, 50, 0]);
    let fatal_at: Option<usize> = if ot.chance(1, 4) { Some(n_hbf + ot.below(n_hbf)) } else { None };
    let mut packets: Vec<Vec<Packet>> = vec![vec![]; n_links];
    let mut k = 0usize;
    for h in 0..n_hbf {
        let l = h % n_links;
        for (page, stop) in [(0u16, 0u8), (1, 1)] {
            let mut r = Rdh { link_id: 2 + l as u8, fee_id: fee_id(1, l as u8, 5), orbit: 1000 + h as u32, pages_counter: page, stop_bit: stop, ..Rdh::default() };
            if error_every != 0 && k % error_every == 0 && k > 0 {
                r.bc_word = 0xFFF;
            }
            if fatal_at == Some(k) {
                r.offset_next = *ot.pick(&[0u16, 63, 30_000]);
            }
            let mut p = Packet::new(r);
            if fatal_at != Some(k) {
                p.fix_sizes();
            }
            packets[l].push(p);
            k += 1;
        }
    }
    let links: Vec<Link> = packets.into_iter().map(|packets| Link { packets, barrel: Barrel::Inner, lane_ids: vec![] }).collect();
    let lens: Vec<usize> = links.iter().map(|l| l.packets.len()).collect();
    let stream = Stream { links, order: order_round_robin(&lens) };
    let (bytes, lay) = stream.encode();
    let rdhs: Vec<Rdh> = rdhs_of(&stream, &lay).into_iter().take(8).collect();
    let mut case = CliCase::new(w, bytes);
    let mut cmd = gen_cmd(&mut ot, w, &rdhs);
    if !cmd.args.iter().any(|a| a == "-e") && ot.chance(1, 2) {
        cmd.args.insert(0, (1 + ot.below(3000)).to_string());
        cmd.args.insert(0, "-e".into());
        cmd.label.push_str(" -e");
    }
    if !cmd.label.starts_with("filter-write") && !cmd.args.iter().any(|a| a == "-o") && ot.chance(1, 2) {
        if !cmd.args.iter().any(|a| a == "-f" || a == "-F" || a == "-s" || a.starts_with("--filter")) {
            cmd.args.push("-f".into());
            cmd.args.push(rdhs[0].link_id.to_string());
        }
        // (after the subcommand, next to the filter option: clap checks `-o requires a filter` per level)
        cmd.args.push("-o".into());
        cmd.args.push(w.path("ignored_out.raw").display().to_string());
        cmd.label.push_str(" -o(ignored)");
    }
    let (spec, o) = run_cmd(&mut case, &cmd);
    judge(&mut case, &cmd, &spec, &o)?;
    out.labels.push(format!("large:cmd:{}", cmd.label.split(" -").next().unwrap_or("")));
    if cmd.label.contains(" -e") {
        out.labels.push("large:error_cap".into());
    }
    if cmd.label.contains("-o(ignored)") {
        out.labels.push("large:ignored_output".into());
    }
    if fatal_at.is_some() {
        out.labels.push("large:fatal_midstream".into());
    }
    out.labels.push(format!("large:errors_every:{error_every}"));
    out.nontrivial = true;
    out.fingerprint = fnv64(&case.data) ^ fnv64(cmd.label.as_bytes());
    out.execs = case.execs;
    if w.take_sample() {
        out.sample = Some(json!({"kind": "large", "cmd": spec.describe(), "exit": o.code, "packets": k, "input_len": case.data.len()}));
    }
    Ok(out)
}

pub fn build() -> Property {
    Property {
        id: "C04",
        rule: "Inputs: structure-aware mutations of G_conf streams (RDH fields to boundary values, word bit flips / insert / delete / swap, padding, packet dup/del, \
               identity splices, truncation, raw bit flips, appended garbage), pure random bytes (0..8, 9..64, 65..4096), random bytes after a valid RDH0, well-framed arbitrary \
               streams, and the repository's test files with random edits; each crossed with a random valid command line (5 check modes, 3 views +-d, filtered writing; \
               filters, -m, -e, -E, -w, -c, -p, -S/-D, -v, an ignored -o next to a check / view; file or pipe). Phase cli_large_inputs: 12 000 .. 60 000 RDH-only packets on 1..2 links (more than the 100 x 100 packets the reader queue holds) with errors on every 1st / 3rd / 50th packet or none, optionally a fatal framing error in the second half, under the same random command lines with an error cap in half of them. Oracle: process ends by itself (watchdog, hang confirmed 3x60 s), no signal, no panic text, exit in {0,1,n}. \
               Non-trivial = the run got past the first RDH (produced rows or located error messages); distinct by input hash x command label.",
        assumptions: vec![
            "only option combinations accepted by clap and validate_args are generated".into(),
            "a debug_assert that only fires in debug builds is not a crash of the shipped tool".into(),
            "time bound: only the coarse hang rule (60 s for <= 16 MB inputs) is judged".into(),
        ],
        phases: vec![
            Phase {
                name: "regress_fixed_crashes",
                kind: PhaseKind::Enum { n: (16, 16), exhaustive: (false, false), f: Box::new(regress_case) },
                threads: 4,
            },
            Phase {
                name: "cli_generated",
                kind: PhaseKind::Gen {
                    cases: (15000, 150000),
                    tape_len: 96 + 16 + 64 + 2000 + 4 * 4000 + 14000 + 400,
                    f: Box::new(cli_case),
                },
                threads: 16,
            },
            Phase { name: "cli_large_inputs", kind: PhaseKind::Gen { cases: (96, 1200), tape_len: 200, f: Box::new(large_case) }, threads: 8 },
            Phase {
                name: "cli_repo_files",
                kind: PhaseKind::Gen {
                    cases: (3000, 30000),
                    tape_len: 200,
                    f: Box::new(repo_file_case),
                },
                threads: 16,
            },
        ],
    }
}
