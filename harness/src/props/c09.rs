//! C09 - ITS payload words are classified as the documented state machine says

use super::common::*;
use crate::cli;
use crate::engine::*;
use crate::inproc::{self, Mode};
use crate::model::*;
use crate::tape::{fnv64, Tape};
use alice_protocol_reader::prelude::RdhCru;
use fastpasta::analyze::validators::its::cdp_running::CdpRunningValidator;
use fastpasta::analyze::validators::its::its_payload_fsm_cont::ItsPayloadFsmContinuous;
use fastpasta::analyze::validators::its::lib::ItsPayloadWord;
use fastpasta::config::test_util::MockConfig;
use fastpasta::stats::StatType;
use serde_json::json;
use std::collections::{HashMap, HashSet, VecDeque};

pub use crate::fsm_model::*;

fn impl_class(r: &ItsPayloadWord) -> Class {
    match r {
        ItsPayloadWord::IHW => Class::Ihw,
        ItsPayloadWord::IHW_continuation => Class::IhwContinuation,
        ItsPayloadWord::TDH => Class::Tdh,
        ItsPayloadWord::TDH_continuation => Class::TdhContinuation,
        ItsPayloadWord::TDH_after_packet_done => Class::TdhAfterPacketDone,
        ItsPayloadWord::TDT => Class::Tdt,
        ItsPayloadWord::CDW => Class::Cdw,
        ItsPayloadWord::DataWord => Class::Data,
        ItsPayloadWord::DDW0 => Class::Ddw0,
    }
}

/// drive the FSM alone over `words`, compare every step with the model; returns visited (state, class) pairs
fn run_fsm(words: &[Word], visited: &mut HashSet<(MS, WC)>) -> Result<(), Fail> {
    let mut fsm = ItsPayloadFsmContinuous::new();
    let mut ms = MS::Ihw;
    for (i, w) in words.iter().enumerate() {
        let before = fsm.verif_state_id();
        let Some(a) = alpha(before) else {
            return Err(Fail::new("C09:unknown-impl-state", format!("implementation state id {before} has no counterpart in the diagram"), json!({"step": i})));
        };
        if a != ms {
            return Err(Fail::new("C09:state-desync", format!("before word {i}: implementation in {a:?}, diagram in {ms:?}"), json!({"words": words.iter().map(|w| word_hex(w)).collect::<Vec<_>>()})));
        }
        visited.insert((ms, class_of_word(w)));
        let r = fsm.advance(w);
        let after = alpha(fsm.verif_state_id());
        match model_step(ms, w) {
            Step::Legal(cls, succ) => {
                let detail = json!({"step": i, "state": format!("{ms:?}"), "word": word_hex(w), "words": words.iter().take(i + 1).map(|w| word_hex(w)).collect::<Vec<_>>()});
                match r {
                    Ok(got) => {
                        if impl_class(&got) != cls {
                            return Err(Fail::new(
                                format!("C09:classification:{ms:?}:{cls:?}"),
                                format!("state {ms:?}, word [{}]: classified {:?}, diagram says {cls:?}", word_hex(w), impl_class(&got)),
                                detail,
                            ));
                        }
                    }
                    Err(e) => {
                        return Err(Fail::new(
                            format!("C09:legal-word-rejected:{ms:?}:{cls:?}"),
                            format!("state {ms:?}, legal word [{}] rejected as {e:?}", word_hex(w)),
                            detail,
                        ));
                    }
                }
                if after != Some(succ) {
                    return Err(Fail::new(
                        format!("C09:successor:{ms:?}:{cls:?}"),
                        format!("state {ms:?}, word [{}]: successor {after:?}, diagram says {succ:?}", word_hex(w)),
                        detail,
                    ));
                }
                ms = succ;
            }
            Step::Illegal(code) => {
                // choice states must flag the word in the FSM itself; single-successor states flag it in the word's sanity check (run_validator)
                if matches!(code, "990" | "991" | "992") && r.is_ok() {
                    return Err(Fail::new(
                        format!("C09:illegal-word-accepted:{ms:?}"),
                        format!("state {ms:?}, illegal word [{}] silently accepted as {:?}", word_hex(w), r.ok().map(|x| impl_class(&x))),
                        json!({"step": i, "words": words.iter().take(i + 1).map(|w| word_hex(w)).collect::<Vec<_>>()}),
                    ));
                }
                // recovery is not defined by the diagram: re-synchronise from the implementation
                match after {
                    Some(a) => ms = a,
                    None => return Err(Fail::new("C09:unknown-impl-state", "implementation reached a state without counterpart", json!({"step": i}))),
                }
            }
        }
    }
    Ok(())
}

/// through the payload validator: every illegal word must be reported at its offset with the documented code,
/// no legal word may get an unrecognised-ID / wrong-ID error
fn run_validator(words: &[Word], splits: &[usize], running: bool) -> Result<usize, Fail> {
    inproc::init_global_config();
    let cfg: &'static MockConfig = inproc::mock_cfg(if running { Mode::AllIts } else { Mode::SanityIts }, false);
    let (tx, rx) = flume::unbounded::<StatType>();
    let mut v: CdpRunningValidator<RdhCru, MockConfig> = CdpRunningValidator::new(cfg, tx);
    let r = Rdh { fee_id: fee_id(0, 0, 1), ..Rdh::default() };
    let rdh = inproc::load_rdh(&r.encode());
    let mut base = 0u64;
    let mut idx_in_packet = 0u64;
    v.set_current_rdh(&rdh, base);
    let mut offsets = vec![];
    for (i, w) in words.iter().enumerate() {
        if splits.contains(&i) && i > 0 {
            base += 64 + idx_in_packet * 10;
            idx_in_packet = 0;
            v.set_current_rdh(&rdh, base);
        }
        offsets.push(base + 64 + idx_in_packet * 10);
        v.check(w);
        idx_in_packet += 1;
    }
    drop(v);
    let mut errs: HashMap<u64, Vec<String>> = HashMap::new();
    while let Ok(s) = rx.try_recv() {
        if let StatType::Error(e) = s {
            if let Some(m) = cli::parse_err_msg(&e) {
                errs.entry(m.offset).or_default().push(e.to_string());
            }
        }
    }
    // model pass (re-synchronised through a parallel FSM instance)
    let mut fsm = ItsPayloadFsmContinuous::new();
    let mut n_illegal = 0;
    for (i, w) in words.iter().enumerate() {
        let ms = alpha(fsm.verif_state_id()).unwrap_or(MS::Ihw);
        let step = model_step(ms, w);
        let _ = fsm.advance(w);
        let here = errs.get(&offsets[i]).cloned().unwrap_or_default();
        let id_errs: Vec<&String> = here.iter().filter(|e| e.contains("[E99") || e.contains("ID is not")).collect();
        match step {
            Step::Illegal(code) => {
                n_illegal += 1;
                let ok = match code {
                    "30" => here.iter().any(|e| e.contains("[E30]") && e.contains("ID is not 0xE0")),
                    "40" => here.iter().any(|e| e.contains("[E40]") && e.contains("ID is not 0xE8")),
                    c => here.iter().any(|e| e.contains(&format!("[E{c}]"))),
                };
                if !ok {
                    return Err(Fail::new(
                        format!("C09:illegal-word-not-reported:{ms:?}:E{code}"),
                        format!("state {ms:?}: illegal word [{}] at {:#X} not reported with E{code}", word_hex(w), offsets[i]),
                        json!({"step": i, "errors_at_word": here, "words": words.iter().take(i + 1).map(|w| word_hex(w)).collect::<Vec<_>>(), "running": running}),
                    ));
                }
            }
            Step::Legal(..) => {
                if !id_errs.is_empty() {
                    return Err(Fail::new(
                        format!("C09:legal-word-reported:{ms:?}"),
                        format!("state {ms:?}: legal word [{}] got an identifier error: {}", word_hex(w), id_errs[0]),
                        json!({"step": i, "words": words.iter().take(i + 1).map(|w| word_hex(w)).collect::<Vec<_>>(), "running": running}),
                    ));
                }
            }
        }
    }
    Ok(n_illegal)
}

/// exhaustive breadth-first product of (implementation state id, model state) under the 12 classes
fn product_case(_i: u64, w: &Worker) -> CaseResult {
    let mut seen: HashMap<(u8, MS), Vec<Word>> = HashMap::new();
    let mut queue: VecDeque<(u8, MS)> = VecDeque::new();
    seen.insert((0, MS::Ihw), vec![]);
    queue.push_back((0, MS::Ihw));
    let mut visited: HashSet<(MS, WC)> = HashSet::new();
    let mut transitions = 0u64;
    while let Some(key) = queue.pop_front() {
        let path = seen[&key].clone();
        for wc in ALL_WC {
            let mut words = path.clone();
            words.push(word_of_class(wc, None));
            run_fsm(&words, &mut visited)?;
            run_validator(&words, &[], false)?;
            run_validator(&words, &[], true)?;
            transitions += 1;
            // where did it end?
            let mut fsm = ItsPayloadFsmContinuous::new();
            for x in &words {
                let _ = fsm.advance(x);
            }
            let id = fsm.verif_state_id();
            let ms = alpha(id).ok_or_else(|| Fail::new("C09:unknown-impl-state", "state without counterpart", json!({})))?;
            if !seen.contains_key(&(id, ms)) {
                seen.insert((id, ms), words);
                queue.push_back((id, ms));
            }
        }
    }
    let mut out = CaseOut::default();
    out.nontrivial = true;
    out.fingerprint = transitions;
    out.labels.push(format!("product_states:{}", seen.len()));
    out.labels.push(format!("product_transitions:{transitions}"));
    out.labels.push(format!("state_class_pairs:{}", visited.len()));
    // every (model state, class) pair must have been taken
    let all_ms = [MS::Ihw, MS::Tdh, MS::Data, MS::AfterNoData, MS::AfterTdtDone, MS::CIhw, MS::CTdh, MS::CData];
    for s in all_ms {
        for c in ALL_WC {
            if !visited.contains(&(s, c)) {
                return Err(Fail::new("C09:coverage-hole", format!("pair ({s:?},{c:?}) not reachable in the product"), json!({})));
            }
        }
    }
    if w.take_sample() || true {
        out.sample = Some(json!({"kind": "product", "reachable_pairs(impl_state,model_state)": seen.keys().map(|k| format!("{}:{:?}", k.0, k.1)).collect::<Vec<_>>(),
                                 "transitions_checked": transitions, "state_x_class_pairs": visited.len()}));
    }
    Ok(out)
}

fn gen_sequence(t: &mut Tape, max: usize) -> Vec<Word> {
    let n = 1 + t.below(max);
    let mut words = vec![];
    // mostly-legal walk: follow the model and pick a legal class with high probability
    let mut ms = MS::Ihw;
    for _ in 0..n {
        let legal: Vec<WC> = ALL_WC
            .iter()
            .copied()
            .filter(|c| matches!(model_step(ms, &word_of_class(*c, None)), Step::Legal(..)))
            .collect();
        let c = if t.chance(1, 6) || legal.is_empty() { *t.pick(&ALL_WC) } else { *t.pick(&legal) };
        let w = word_of_class(c, Some(t));
        match model_step(ms, &w) {
            Step::Legal(_, s) => ms = s,
            Step::Illegal(code) => {
                // mirror the implementation's documented guess to keep walking
                ms = match (ms, code) {
                    (MS::Ihw, _) => MS::Tdh,
                    (MS::CIhw, _) => MS::CTdh,
                    (MS::CTdh, _) => MS::CData,
                    (MS::Tdh, _) => {
                        if w[1] & 0x20 != 0 {
                            MS::AfterNoData
                        } else {
                            MS::Data
                        }
                    }
                    (MS::AfterNoData, _) => MS::Data,
                    (MS::AfterTdtDone, _) => MS::Ihw,
                    (s, _) => s,
                };
            }
        }
        words.push(w);
    }
    words
}

fn random_case(t: &mut Tape, w: &Worker) -> CaseResult {
    let words = gen_sequence(t, 400);
    let mut visited = HashSet::new();
    run_fsm(&words, &mut visited)?;
    let n_splits = t.below(6);
    let mut splits = vec![];
    for _ in 0..n_splits {
        splits.push(t.below(words.len()));
    }
    let running = t.chance(1, 2);
    let n_illegal = run_validator(&words, &splits, running)?;
    let mut out = CaseOut::default();
    let states: HashSet<MS> = visited.iter().map(|x| x.0).collect();
    out.nontrivial = states.len() >= 4 && n_illegal >= 1;
    out.fingerprint = fnv64(&words.concat());
    out.labels.push(format!("states_visited:{}", states.len()));
    out.labels.push(if n_illegal > 0 { "has_illegal".into() } else { "all_legal".into() });
    out.labels.push(if running { "validator:running".into() } else { "validator:sanity".into() });
    for (s, c) in visited {
        out.labels.push(format!("pair:{s:?}/{}", format!("{c:?}").split(' ').next().unwrap_or("")));
    }
    if w.take_sample() {
        out.sample = Some(json!({"kind": "random sequence", "len": words.len(), "illegal_words": n_illegal, "first_words": words.iter().take(8).map(|w| word_hex(w)).collect::<Vec<_>>()}));
    }
    Ok(out)
}

/// sequences embedded in real packets through the CLI
fn cli_case(t: &mut Tape, w: &Worker) -> CaseResult {
    let words = gen_sequence(t, 120);
    // packets of <= 40 words; format 2; the FSM continues over packets of the link
    let fmt0 = t.chance(1, 2);
    let mut packets = vec![];
    let mut page = 0u16;
    let mut last_id_ff = 0;
    for ch in words.chunks(40) {
        let mut p = Packet::new(Rdh { fee_id: fee_id(0, 0, 1), pages_counter: page, format_word: if fmt0 { 0 } else { 2 }, ..Rdh::default() });
        p.words = ch.to_vec();
        if !fmt0 && p.words.len() >= 2 && p.words[1][0..6].iter().all(|b| *b == 0) {
            // keep the layout in agreement with the format (changes one data bit of a word, class unchanged)
            p.words[1][0] |= 1;
        }
        // a format-2 payload must not end in 0xFF bytes that belong to a word
        // (a run of 0xFF shorter than a word - the word's own trailing 0xFF bytes plus the padding - is still a word:
        //  such a last word, illegal in every state, stays in and must be reported like any other)
        if !fmt0 {
            let n = p.words.len();
            let pad = (16 - (10 * n) % 16) % 16;
            if pad <= 8 && t.chance(1, 5) {
                p.words[n - 1][9] = 0xFF;
            }
            if let Some(l) = p.words.last_mut() {
                let own = l.iter().rev().take_while(|b| **b == 0xFF).count();
                if own > 0 && pad + own > 9 {
                    l[9] = 0xFE;
                } else if own > 0 {
                    last_id_ff += 1;
                }
            }
        }
        p.fix_sizes();
        packets.push(p);
        page += 1;
    }
    let words: Vec<Word> = packets.iter().flat_map(|p| p.words.clone()).collect();
    let stream = Stream::single(Link { packets, barrel: Barrel::Inner, lane_ids: vec![] });
    let (bytes, lay) = stream.encode();
    let mut offsets = vec![];
    for i in 0..lay.packets.len() {
        for wi in 0..stream.packet(&lay, i).words.len() {
            offsets.push(stream.word_offset(&lay, i, wi));
        }
    }
    let mut case = CliCase::new(w, bytes.clone());
    let (spec, o) = case.run(vec!["check".into(), "sanity".into(), "its".into()], t.chance(1, 2));
    if let Some(f) = crash_check(&spec, &o, &bytes, &[0, 1]) {
        return Err(f);
    }
    let msgs = cli::error_messages(&o.stderr);
    let mut fsm = ItsPayloadFsmContinuous::new();
    let mut n_illegal = 0;
    for (i, wd) in words.iter().enumerate() {
        let ms = alpha(fsm.verif_state_id()).unwrap_or(MS::Ihw);
        let step = model_step(ms, wd);
        let _ = fsm.advance(wd);
        let here: Vec<&cli::ErrMsg> = msgs.iter().filter(|m| m.offset == offsets[i]).collect();
        match step {
            Step::Illegal(code) => {
                n_illegal += 1;
                let ok = match code {
                    "30" => here.iter().any(|m| m.codes.contains(&"30".to_string()) && m.text.contains("ID is not 0xE0")),
                    "40" => here.iter().any(|m| m.codes.contains(&"40".to_string()) && m.text.contains("ID is not 0xE8")),
                    c => here.iter().any(|m| m.codes.contains(&c.to_string())),
                };
                if !ok {
                    return Err(Fail::new(
                        format!("C09:cli:illegal-word-not-reported:{ms:?}:E{code}"),
                        format!("CLI: state {ms:?}: illegal word [{}] at {:#X} not reported with E{code}", word_hex(wd), offsets[i]),
                        json!({"cmd": spec.describe(), "input": input_detail(&bytes)}),
                    ));
                }
            }
            Step::Legal(..) => {
                if let Some(m) = here.iter().find(|m| m.text.contains("[E99") || m.text.contains("ID is not")) {
                    return Err(Fail::new(
                        format!("C09:cli:legal-word-reported:{ms:?}"),
                        format!("CLI: state {ms:?}: legal word [{}] got: {}", word_hex(wd), m.text.lines().next().unwrap_or("")),
                        json!({"cmd": spec.describe(), "input": input_detail(&bytes)}),
                    ));
                }
            }
        }
    }
    let mut out = CaseOut::default();
    out.nontrivial = n_illegal >= 1 && words.len() >= 4;
    out.fingerprint = fnv64(&bytes);
    out.execs = case.execs;
    out.labels.push(if fmt0 { "cli:format0".into() } else { "cli:format2".into() });
    if last_id_ff > 0 {
        out.labels.push("cli:format2:last_word_id_0xFF".into());
    }
    if w.take_sample() {
        out.sample = Some(json!({"kind": "cli", "words": words.len(), "illegal": n_illegal, "messages": msgs.len()}));
    }
    Ok(out)
}

pub fn build() -> Property {
    Property {
        id: "C09",
        rule: "Model = the documented state diagram transcribed by hand (8 states x 12 word classes; DESIGN.md appendix A.1). (1) exhaustive breadth-first product of (implementation state id read through the hook, model state) \
               from the initial state under all 12 classes: every reachable pair, every (state, class) edge incl. every (state, illegal class) pair, each also pushed through the payload validator (sanity and running) to see the error at the word; \
               (2) proptest sequences of 1..400 words (mostly-legal walks with 1/6 arbitrary words, random field bits, boundary unknown ids) through the FSM and through the payload validator split over packets at random points; \
               (3) sequences embedded in real packets (both data formats) through the CLI. Oracle: legal word => classification and successor equal the diagram's; illegal word => E30/E40 `ID is not` in single-successor states, \
               E990/E991/E992 in choice states, at exactly that word; then the model is re-synchronised from the hook. Non-trivial = sequence visits >= 4 model states and contains an illegal word.",
        assumptions: vec![
            "CDW is legal wherever data is (doc/checks_list.md, E991 message text)".into(),
            "the diagram does not define recovery after an illegal word: no successor is demanded there".into(),
        ],
        phases: vec![
            Phase { name: "product_exhaustive", kind: PhaseKind::Enum { n: (1, 1), exhaustive: (true, true), f: Box::new(product_case) }, threads: 1 },
            Phase { name: "random_sequences", kind: PhaseKind::Gen { cases: (12000, 400000), tape_len: 4000, f: Box::new(random_case) }, threads: 16 },
            Phase { name: "cli_sequences", kind: PhaseKind::Gen { cases: (2000, 12000), tape_len: 1500, f: Box::new(cli_case) }, threads: 16 },
        ],
    }
}
