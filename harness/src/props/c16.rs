//! C16 - exit status and error accounting follow the documented contract

use super::common::*;
use crate::cli::{self, Input, RunSpec};
use crate::engine::*;
use crate::gen::{self, ConfOpts, MutOpts};
use crate::inproc::{Mode, ALL_MODES};
use crate::model::*;
use crate::tape::{fnv64, Tape};
use regex::Regex;
use serde_json::json;
use std::sync::OnceLock;

/// the code a message is filed under by the display filter: the `[E<digits>]` at the first '['
pub fn display_code(text: &str) -> Option<String> {
    static RE: OnceLock<Regex> = OnceLock::new();
    let re = RE.get_or_init(|| Regex::new(r"^[^\[]*\[E([0-9]+)\]").unwrap());
    re.captures(text).map(|c| c[1].to_string())
}

fn small_conf(t: &mut Tape) -> gen::ConfStream {
    gen::gen_conf_stream(
        t,
        &ConfOpts {
            max_links: 3,
            max_hbfs: 3,
            big_16: 0,
            ..Default::default()
        },
    )
}

// ------------------------------------------------------------------------------------------------
// invalid option combinations are rejected before any output is written
// ------------------------------------------------------------------------------------------------
fn invalid_combo_case(i: u64, w: &Worker) -> CaseResult {
    let data = std::fs::read("/repo/tests/test-data/10_rdh.raw").unwrap_or_else(|_| {
        let mut p = Packet::new(Rdh::default());
        p.fix_sizes();
        p.encode()
    });
    let file = w.write("in.raw", &data);
    let out_file = w.path("out.raw");
    let stats_file = w.path("stats.json");
    let missing = w.path("does_not_exist.json");
    let noext = w.write("statsfile", b"{}");
    let badext = w.write("stats.yaml", b"{}");
    let f = file.display().to_string();
    let of = out_file.display().to_string();
    let sf = stats_file.display().to_string();
    let combos: Vec<(&str, Vec<String>)> = vec![
        ("check sanity its-stave", vec![f.clone(), "check".into(), "sanity".into(), "its-stave".into(), "-S".into(), sf.clone(), "-D".into(), "json".into()]),
        ("trigger period with check all its", vec![f.clone(), "check".into(), "all".into(), "its".into(), "-s".into(), "L0_12".into(), "-p".into(), "10".into(), "-S".into(), sf.clone(), "-D".into(), "json".into()]),
        ("trigger period with check sanity", vec![f.clone(), "check".into(), "sanity".into(), "-s".into(), "L0_12".into(), "-p".into(), "10".into()]),
        ("trigger period with view", vec![f.clone(), "view".into(), "rdh".into(), "-s".into(), "L0_12".into(), "-p".into(), "10".into()]),
        ("trigger period without stave filter", vec![f.clone(), "check".into(), "all".into(), "its-stave".into(), "-p".into(), "10".into(), "-S".into(), sf.clone(), "-D".into(), "json".into()]),
        ("trigger period without any command", vec![f.clone(), "-s".into(), "L0_12".into(), "-p".into(), "10".into(), "-o".into(), of.clone()]),
        ("-E 0", vec![f.clone(), "check".into(), "sanity".into(), "-E".into(), "0".into(), "-S".into(), sf.clone(), "-D".into(), "json".into()]),
        ("-E 0 with filter output", vec![f.clone(), "-f".into(), "8".into(), "-o".into(), of.clone(), "-E".into(), "0".into()]),
        ("input stats file missing", vec![f.clone(), "check".into(), "sanity".into(), "-i".into(), missing.display().to_string(), "-S".into(), sf.clone(), "-D".into(), "json".into()]),
        ("input stats file without extension", vec![f.clone(), "check".into(), "sanity".into(), "-i".into(), noext.display().to_string(), "-S".into(), sf.clone(), "-D".into(), "json".into()]),
        ("input stats file wrong extension", vec![f.clone(), "check".into(), "sanity".into(), "-i".into(), badext.display().to_string(), "-S".into(), sf.clone(), "-D".into(), "json".into()]),
        ("output without filter", vec![f.clone(), "-o".into(), of.clone()]),
        ("stats output without format", vec![f.clone(), "check".into(), "sanity".into(), "-S".into(), sf.clone()]),
        ("two filters", vec![f.clone(), "check".into(), "sanity".into(), "-f".into(), "1".into(), "-F".into(), "2".into(), "-S".into(), sf.clone(), "-D".into(), "json".into()]),
    ];
    let mut combos = combos;
    // an extension that differs from json / toml only in letter case: either rejected up front like any other wrong
    // extension, or treated as the format it names - a genuine statistics file of this very input is supplied, so a
    // tolerant reading ends with exit 0; never a crash, never a half-way result
    let n_plain = combos.len();
    let names = ["either: input stats file .JSON", "either: input stats file .Json", "either: input stats file .TOML", "either: input stats file .Toml"];
    for (k, (ext, fmt)) in [("JSON", "json"), ("Json", "json"), ("TOML", "toml"), ("Toml", "toml")].iter().enumerate() {
        if i as usize % (n_plain + 4) == n_plain + k {
            let reference = w.path("reference_stats").with_extension(fmt);
            let mk = RunSpec::new(vec![f.clone(), "check".into(), "sanity".into(), "-S".into(), reference.display().to_string(), "-D".into(), fmt.to_string()], Input::File(file.clone()));
            let _ = cli::run(&w.cli, &mk);
            let odd = w.path("stats_odd_case").with_extension(ext);
            let _ = std::fs::copy(&reference, &odd);
            let _ = std::fs::remove_file(&reference);
            combos.push((names[k], vec![f.clone(), "check".into(), "sanity".into(), "-i".into(), odd.display().to_string()]));
        } else {
            combos.push(("unused", vec![]));
        }
    }
    let (name, args) = &combos[i as usize % combos.len()];
    if *name == "unused" {
        return Ok(CaseOut::default());
    }
    let spec = RunSpec::new(args.clone(), Input::File(file.clone()));
    let o = cli::run(&w.cli, &spec);
    let detail = json!({"combo": name, "cmd": spec.describe(), "out": o.brief()});
    if o.timed_out || o.crash_signature().is_some() {
        return Err(Fail::new(format!("C16:invalid-combo-crash:{name}"), "crash or hang on an invalid option combination", detail));
    }
    if name.starts_with("either:") && o.code == Some(0) && !o.stdout.is_empty() {
        // tolerant reading: processed normally
        let mut out = CaseOut::default();
        out.labels.push(format!("tolerated:{name}"));
        out.nontrivial = true;
        out.fingerprint = fnv64(name.as_bytes());
        out.execs = 2;
        return Ok(out);
    }
    if o.code == Some(0) {
        return Err(Fail::new(format!("C16:invalid-combo-accepted:{name}"), "invalid option combination exits 0", detail));
    }
    if !o.stdout.is_empty() {
        return Err(Fail::new(format!("C16:invalid-combo-stdout:{name}"), "output written on stdout for an invalid combination", detail));
    }
    if out_file.exists() || stats_file.exists() {
        return Err(Fail::new(format!("C16:invalid-combo-file-created:{name}"), "an output / statistics file was created for an invalid combination", detail));
    }
    let mut out = CaseOut::default();
    out.labels.push(format!("invalid:{name}"));
    out.nontrivial = true;
    out.fingerprint = fnv64(name.as_bytes());
    out.execs = 1;
    if w.take_sample() {
        out.sample = Some(detail);
    }
    Ok(out)
}

// ------------------------------------------------------------------------------------------------
// unreadable / unrecognisable input
// ------------------------------------------------------------------------------------------------
fn bad_input_case(t: &mut Tape, w: &Worker) -> CaseResult {
    let mode = *t.pick(&ALL_MODES);
    let e = 1 + t.below(255);
    let mut args = mode.args();
    if t.chance(1, 2) {
        args.push("-E".into());
        args.push(e.to_string());
    }
    let kind = t.below(5);
    let stdin = t.chance(1, 2);
    let (label, spec) = match kind {
        0 => {
            let p = w.path("missing.raw");
            let mut a = vec![p.display().to_string()];
            a.extend(args);
            ("missing-file", RunSpec::new(a, Input::File(p)))
        }
        1 => {
            // empty input
            if stdin {
                ("empty-stdin", RunSpec::new(args, Input::None))
            } else {
                let p = w.write("empty.raw", b"");
                let mut a = vec![p.display().to_string()];
                a.extend(args);
                ("empty-file", RunSpec::new(a, Input::File(p)))
            }
        }
        2 => {
            let n = 1 + t.below(7);
            let b = t.bytes(n);
            if stdin {
                ("short-stdin", RunSpec::new(args, Input::Pipe(std::sync::Arc::new(b), 0)))
            } else {
                let p = w.write("short.raw", &b);
                let mut a = vec![p.display().to_string()];
                a.extend(args);
                ("short-file", RunSpec::new(a, Input::File(p)))
            }
        }
        _ => {
            // not ALICE data: the first RDH0 violates the documented pre-check
            let n = 8 + t.below(400);
            let mut b = t.bytes(n);
            match t.below(4) {
                0 => b[1] = b[1].wrapping_add(1).max(0x41), // header size != 0x40
                1 => {
                    b[1] = 0x40;
                    b[0] = *t.pick(&[0u8, 1, 2, 101, 200, 255]); // version outside 3..=100
                    b[2] = 0;
                    b[3] = 0;
                    b[4] = 0;
                    b[6] = 0;
                    b[7] = 0;
                }
                2 => {
                    b[1] = 0x40;
                    b[4] = 1 + (b[4] % 200); // priority bit
                }
                _ => {
                    b[1] = 0x40;
                    b[6] |= 1; // reserved
                }
            }
            if stdin {
                ("non-alice-stdin", RunSpec::new(args, Input::Pipe(std::sync::Arc::new(b), 0)))
            } else {
                let p = w.write("noise.raw", &b);
                let mut a = vec![p.display().to_string()];
                a.extend(args);
                ("non-alice-file", RunSpec::new(a, Input::File(p)))
            }
        }
    };
    let o = cli::run(&w.cli, &spec);
    let detail = json!({"class": label, "cmd": spec.describe(), "out": o.brief()});
    if o.timed_out || o.crash_signature().is_some() {
        return Err(Fail::new(
            format!("C16:bad-input-crash:{}", o.crash_signature().unwrap_or_else(|| "hang".into())),
            "crash or hang on unreadable / unrecognisable input",
            detail,
        ));
    }
    if o.code == Some(0) || o.code.is_none() {
        return Err(Fail::new(format!("C16:bad-input-exit0:{label}"), "unreadable / unrecognisable input exits 0", detail));
    }
    let mut out = CaseOut::default();
    out.labels.push(format!("bad_input:{label}"));
    out.nontrivial = true;
    out.fingerprint = fnv64(format!("{label}{:?}", spec.args).as_bytes());
    out.execs = 1;
    if w.take_sample() {
        out.sample = Some(detail);
    }
    Ok(out)
}

// ------------------------------------------------------------------------------------------------
// exit status + accounting on processed inputs
// ------------------------------------------------------------------------------------------------
struct Obs {
    code: Option<i32>,
    red: Vec<String>,
    total: Option<u64>,
    listed: Option<usize>,
    custom: usize,
    fatal_stats: bool,
    fatal_log: bool,
    report_total: Option<String>,
    stats: Option<serde_json::Value>,
}

fn observe(case: &mut CliCase, w: &Worker, base_args: &[String], extra: &[String], stdin: bool) -> Result<(RunSpec, Obs), Fail> {
    let sp = w.path("st.json");
    let mut args = base_args.to_vec();
    args.extend(stats_args(&sp, false));
    args.extend(extra.iter().cloned());
    let (spec, o) = case.run(args, stdin);
    if o.timed_out || o.crash_signature().is_some() {
        return Err(Fail::new(
            format!("C16:crash:{}", o.crash_signature().unwrap_or_else(|| "hang".into())),
            "crash or hang",
            json!({"cmd": spec.describe(), "out": o.brief(), "input": input_detail(&case.data)}),
        ));
    }
    let st = read_stats(&sp, false);
    let es = st.as_ref().map(|s| s["error_stats"].clone());
    let rows = cli::parse_report(&o.stdout_str());
    Ok((
        spec,
        Obs {
            code: o.code,
            red: cli::red_error_records(&o.stderr).into_iter().map(|r| r.text).collect(),
            total: es.as_ref().and_then(|e| e["total_errors"].as_u64()),
            listed: es.as_ref().and_then(|e| e["reported_errors"].as_array().map(|a| a.len())),
            custom: es.as_ref().and_then(|e| e["custom_checks_stats_errors"].as_array().map(|a| a.len())).unwrap_or(0),
            fatal_stats: es.as_ref().map(|e| !e["fatal_error"].is_null()).unwrap_or(false),
            fatal_log: cli::has_fatal(&o.stderr),
            report_total: cli::report_value(&rows, "Total Errors"),
            stats: st.clone(),
        },
    ))
}

fn contract_case(t0: &mut Tape, w: &Worker) -> CaseResult {
    let mut ot = t0.fork(64);
    let mut out = CaseOut::default();
    let mut cs = small_conf(t0);
    let mut mt = t0.fork(300);
    let class = ot.weighted(&[2, 6, 3]);
    match class {
        0 => out.labels.push("input:clean".into()),
        1 => {
            out.labels.push("input:errors".into());
            let n = 1 + mt.below(10);
            gen::mutate_stream(&mut mt, &mut cs.stream, &MutOpts { protect_first: true, keep_framing: true, keep_layout: true }, n, &mut vec![]);
        }
        _ => {
            out.labels.push("input:fatal_midstream".into());
            // optional ordinary errors first
            if mt.chance(1, 2) {
                let n = 1 + mt.below(4);
                gen::mutate_stream(&mut mt, &mut cs.stream, &MutOpts { protect_first: true, keep_framing: true, keep_layout: true }, n, &mut vec![]);
                out.labels.push("fatal:with_ordinary_errors".into());
            }
            // a framing error at packet i >= 1 of some link (offset to next outside 64..=10064)
            let li = mt.below(cs.stream.links.len());
            let np = cs.stream.links[li].packets.len();
            if np >= 2 {
                let pi = 1 + mt.below(np - 1);
                cs.stream.links[li].packets[pi].rdh.offset_next = *mt.pick(&[0u16, 1, 63, 10_065, 20_000, 65_535]);
            }
        }
    }
    // a sixth of the inputs belong to another detector (a known system id other than ITS on every packet); they are
    // checked without a target system (RDH level only): accounting and display rules are the same
    let other_detector = class != 2 && ot.chance(1, 6);
    if other_detector {
        let sys = *ot.pick(&[0x03u8, 0x04, 0x05, 0x06, 0x21, 0x22, 0x27]);
        for l in cs.stream.links.iter_mut() {
            for p in l.packets.iter_mut() {
                p.rdh.system_id = sys;
            }
        }
        out.labels.push("input:other_detector".into());
    }
    let (bytes, _lay) = cs.stream.encode();
    let mode = if other_detector { *ot.pick(&[Mode::Sanity, Mode::All]) } else { *ot.pick(&ALL_MODES) };
    let stdin = ot.chance(1, 2);
    let with_e = ot.chance(3, 4);
    let e_code = 1 + ot.below(255);
    let mut base = mode.args();
    if with_e {
        base.push("-E".into());
        base.push(e_code.to_string());
    }
    // custom checks that certainly fail / certainly hold
    let mut custom_expected_fail = false;
    if ot.chance(1, 5) {
        let total_packets = cs.stream.n_packets();
        let wrong = ot.chance(1, 2);
        let body = format!("cdps = {}\n", if wrong { total_packets + 1 } else { total_packets });
        let f = w.write("checks.toml", body.as_bytes());
        base.push("-c".into());
        base.push(f.display().to_string());
        custom_expected_fail = wrong && class != 2;
        out.labels.push(if wrong { "custom:wrong".into() } else { "custom:right".into() });
    }
    let mut case = CliCase::new(w, bytes.clone());
    let (spec0, o0) = observe(&mut case, w, &base, &[], stdin)?;
    let detail = |what: &str, spec: &RunSpec, o: &Obs| {
        json!({"what": what, "mode": mode.name(), "cmd": spec.describe(), "exit": o.code, "total_errors": o.total, "listed": o.listed, "custom": o.custom,
               "red_shown": o.red.len(), "fatal_in_stats": o.fatal_stats, "fatal_logged": o.fatal_log, "first_red": o.red.first().map(|s| s.lines().next().unwrap_or("").to_string()),
               "input": input_detail(&bytes)})
    };
    // ---- exit status contract
    let reported = o0.total.unwrap_or(0) > 0 || o0.fatal_stats || o0.fatal_log || !o0.red.is_empty();
    let expect_code = if with_e && reported { e_code as i32 } else { 0 };
    if o0.code != Some(expect_code) {
        let kind = if o0.fatal_stats || o0.fatal_log {
            if o0.total.unwrap_or(0) == 0 { "fatal-only" } else { "fatal+errors" }
        } else if o0.custom > 0 {
            "custom-check"
        } else {
            "errors"
        };
        return Err(Fail::new(
            format!("C16:exit-status:{kind}:got{}", if o0.code == Some(0) { "0" } else { "other" }),
            format!("exit status {:?}, contract says {expect_code} (reported={reported}, -E {})", o0.code, if with_e { e_code.to_string() } else { "absent".into() }),
            detail("exit status", &spec0, &o0),
        ));
    }
    if class == 0 && reported && !base.contains(&"-c".to_string()) {
        return Err(Fail::new("C16:clean-input-reported", "clean input reported something", detail("clean", &spec0, &o0)));
    }
    if custom_expected_fail && o0.custom == 0 {
        return Err(Fail::new("C16:custom-check-not-reported", "a custom check that must fail was not reported", detail("custom", &spec0, &o0)));
    }
    // ---- accounting without display option
    if let (Some(total), Some(listed)) = (o0.total, o0.listed) {
        if total as usize != listed + o0.custom {
            return Err(Fail::new(
                "C16:total-vs-listed",
                format!("total_errors {total} != {listed} listed + {} custom", o0.custom),
                detail("accounting", &spec0, &o0),
            ));
        }
        let shown = o0.red.len() as u64;
        let ok = shown == total || (o0.fatal_stats && shown == total + 1);
        if !ok {
            return Err(Fail::new(
                "C16:total-vs-shown",
                format!("total_errors {total} but {shown} error messages shown"),
                detail("accounting", &spec0, &o0),
            ));
        }
        if let Some(rt) = &o0.report_total {
            if *rt != total.to_string() {
                return Err(Fail::new("C16:report-total", format!("report shows Total Errors {rt}, statistics file {total}"), detail("report", &spec0, &o0)));
            }
        }
    }
    // ---- display options change only what is displayed
    let fatal = o0.fatal_stats || o0.fatal_log;
    let total0 = o0.total;
    // -m
    {
        let (spec, o) = observe(&mut case, w, &base, &["-m".to_string()], stdin)?;
        if !o.red.is_empty() {
            return Err(Fail::new("C16:mute-shows-errors", format!("{} error messages shown with --mute-errors", o.red.len()), detail("-m", &spec, &o)));
        }
        if !fatal && (o.total != total0 || o.code != o0.code) {
            return Err(Fail::new("C16:mute-changes-result", "muting changed the error total or the exit status", detail("-m", &spec, &o)));
        }
    }
    // ---- a statistics mismatch is reported and gives exit n, muted or not (nothing else is reported on this input)
    if !fatal && !reported && with_e && ot.chance(1, 2) {
        if let Some(mut st) = o0.stats.clone() {
            let which = ot.below(3);
            let what = match which {
                0 => {
                    st["error_stats"]["total_errors"] = json!(st["error_stats"]["total_errors"].as_u64().unwrap_or(0) + 1);
                    "error_stats.total_errors+1"
                }
                1 => {
                    st["rdh_stats"]["rdhs_seen"] = json!(st["rdh_stats"]["rdhs_seen"].as_u64().unwrap_or(0) + 1);
                    "rdh_stats.rdhs_seen+1"
                }
                _ => {
                    if let Some(a) = st["error_stats"]["reported_errors"].as_array_mut() {
                        a.push(json!("0x40: [E10] RDH sanity check failed: listed in the file only"));
                    }
                    st["error_stats"]["total_errors"] = json!(st["error_stats"]["total_errors"].as_u64().unwrap_or(0) + 1);
                    "error_stats.reported_errors+1"
                }
            };
            let drifted = w.path("drifted_stats").with_extension("json");
            let _ = std::fs::write(&drifted, serde_json::to_string_pretty(&st).unwrap_or_default().as_bytes());
            for muted in [false, true] {
                let mut extra = vec!["-i".to_string(), drifted.display().to_string()];
                if muted {
                    extra.push("-m".into());
                }
                let (spec, o) = observe(&mut case, w, &base, &extra, stdin)?;
                if o.code != Some(e_code as i32) {
                    return Err(Fail::new(
                        format!("C16:exit-status:stats-mismatch:{}:{}", if muted { "muted" } else { "unmuted" }, what),
                        format!("statistics file differs from the run in {what} but exit status is {:?}, contract says {e_code}", o.code),
                        detail("stats mismatch", &spec, &o),
                    ));
                }
            }
            out.labels.push(format!("stats_mismatch:{what}"));
        }
    }
    // -w L
    let codes_present: Vec<String> = {
        let mut v: Vec<String> = o0.red.iter().filter_map(|r| display_code(r)).collect();
        v.sort();
        v.dedup();
        v
    };
    if !fatal {
        let mut l: Vec<String> = vec![];
        for c in &codes_present {
            if ot.chance(1, 2) {
                l.push(c.clone());
            }
        }
        // prefixes / extensions of present codes and absent codes
        for c in &codes_present {
            if ot.chance(1, 3) {
                l.push(format!("{c}0"));
            }
            if c.len() > 2 && ot.chance(1, 3) {
                l.push(c[..c.len() - 1].to_string());
            }
        }
        if l.is_empty() {
            l.push(ot.pick(&["10", "99", "100", "44", "9"]).to_string());
        }
        l.sort();
        l.dedup();
        let mut extra = vec!["-w".to_string()];
        extra.extend(l.iter().cloned());
        let (spec, o) = observe(&mut case, w, &base, &extra, stdin)?;
        let want: Vec<&String> = o0.red.iter().filter(|r| display_code(r).map(|c| l.contains(&c)).unwrap_or(false)).collect();
        let got: Vec<&String> = o.red.iter().collect();
        if want != got {
            return Err(Fail::new(
                "C16:code-filter-not-exact",
                format!("-w {:?}: {} messages shown, {} messages carry a listed code", l, got.len(), want.len()),
                json!({"codes": l, "present": codes_present, "shown_first": got.first().map(|s| s.lines().next().unwrap_or("").to_string()),
                       "cmd": spec.describe(), "input": input_detail(&bytes)}),
            ));
        }
        if o.total != total0 || o.code != o0.code {
            return Err(Fail::new("C16:code-filter-changes-result", "the display filter changed the error total or the exit status", detail("-w", &spec, &o)));
        }
        out.labels.push(format!("w_filter:present_codes:{}", codes_present.len().min(4)));
    }
    // -e N
    if let Some(total) = total0 {
        if total > 0 {
            let n = 1 + ot.below((total as usize + 2).min(40));
            let (spec, o) = observe(&mut case, w, &base, &["-e".to_string(), n.to_string()], stdin)?;
            if o.red.len() > n {
                return Err(Fail::new("C16:cap-exceeded", format!("-e {n}: {} messages shown", o.red.len()), detail("-e", &spec, &o)));
            }
            if with_e && o.code != Some(e_code as i32) {
                return Err(Fail::new("C16:cap-exit-status", format!("-e {n}: exit status {:?}", o.code), detail("-e", &spec, &o)));
            }
            out.labels.push(if (n as u64) < total { "cap<total".into() } else { "cap>=total".into() });
        }
    }
    out.labels.push(format!("mode:{}", mode.name()));
    out.labels.push(if with_e { "E:set".into() } else { "E:absent".into() });
    if fatal {
        out.labels.push("fatal_seen".into());
    }
    out.nontrivial = codes_present.len() >= 2 || fatal;
    out.fingerprint = fnv64(&bytes) ^ fnv64(format!("{}{with_e}{stdin}", mode.name()).as_bytes());
    out.execs = case.execs;
    if w.take_sample() {
        out.sample = Some(json!({"mode": mode.name(), "class": class, "codes_present": codes_present, "total_errors": total0, "exit": o0.code, "runs": case.execs}));
    }
    let _ = Mode::All;
    Ok(out)
}

/// hand-built reproduction of the repaired defect F8: only a fatal framing error is reported, -E n must be returned
fn regress_case(i: u64, w: &Worker) -> CaseResult {
    let mut bytes = vec![];
    for k in 0..3u16 {
        let mut r = Rdh { pages_counter: k, stop_bit: (k == 2) as u8, ..Rdh::default() };
        r.set_sizes(0);
        if k == 1 {
            r.offset_next = 20_000; // framing error in mid-stream
        }
        bytes.extend_from_slice(&r.encode());
    }
    let mut case = CliCase::new(w, bytes.clone());
    let (spec, o) = case.run(vec!["check".into(), "sanity".into(), "-E".into(), "9".into()], i % 2 == 1);
    if o.code != Some(9) {
        return Err(Fail::new("C16:exit-status:fatal-only:got0", format!("exit status {:?}, a fatal input error was reported and -E 9 is set", o.code), json!({"cmd": spec.describe(), "out": o.brief(), "input": input_detail(&bytes)})));
    }
    let mut out = CaseOut::default();
    out.nontrivial = true;
    out.fingerprint = 0xF8 + i;
    out.execs = 1;
    out.labels.push("regress:F8".into());
    Ok(out)
}

pub fn build() -> Property {
    Property {
        id: "C16",
        rule: "(1) 18 invalid option combinations (check sanity its-stave, trigger period in five wrong places, -E 0, stats file missing / without / with wrong extension / with json or toml in another letter case (rejected up front or read as that format, never a crash), -o without filter, -S without -D, two filters): \
               non-zero exit, empty stdout, no file created. (2) unreadable / unrecognisable inputs (missing path, empty, < 8 bytes, first RDH0 failing the documented pre-check; file and stdin; all modes): non-zero exit, no crash. \
               (3) generated inputs {clean G_conf, G_mut errors, mid-stream framing error with / without ordinary errors; a sixth with the system id of another detector on every packet, checked without target} x five modes x -E n (n in 1..255) x custom checks (right / wrong packet count): exit = n iff anything was reported \
               (error, fatal input error, custom-check failure) and -E given, else 0; total_errors = listed + custom = number of red messages shown (+1 accepted when the fatal message is repeated); -m shows none and changes nothing; on otherwise silent inputs a statistics file (-i) that differs from the run in one value (error total, RDH count, one listed message) gives exit n with and without -m; \
               -w L shows exactly the messages whose code is in L (L includes codes that are prefixes / extensions of present codes); -e N shows <= N. Non-trivial = >= 2 distinct codes present or a fatal/invalid class.",
        assumptions: vec![
            "with a fatal message present both total and total+1 shown messages are accepted (the statement does not say whether the fatal line is an error message)".into(),
            "exit-status oracle relates observables of the same run (reported <=> exit n); classes clean / wrong custom check are known by construction".into(),
        ],
        phases: vec![
            Phase { name: "regress_fixed", kind: PhaseKind::Enum { n: (2, 2), exhaustive: (false, false), f: Box::new(regress_case) }, threads: 2 },
            Phase {
                name: "invalid_combos",
                kind: PhaseKind::Enum { n: (18, 18), exhaustive: (true, true), f: Box::new(invalid_combo_case) },
                threads: 7,
            },
            Phase {
                name: "bad_inputs",
                kind: PhaseKind::Gen { cases: (3000, 20000), tape_len: 300, f: Box::new(bad_input_case) },
                threads: 16,
            },
            Phase {
                name: "contract",
                kind: PhaseKind::Gen { cases: (5000, 30000), tape_len: 64 + 64 + 2000 + 3 * 4000 + 300, f: Box::new(contract_case) },
                threads: 16,
            },
        ],
    }
}
