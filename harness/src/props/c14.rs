//! C14 - statistics equal ground truth computed from the input

use super::common::*;
use crate::cli;
use crate::engine::*;
use crate::gen::{self, ConfOpts, FrameOpts, MutOpts};
use crate::inproc::ALL_MODES;
use crate::model::*;
use crate::tape::{fnv64, Tape};
use serde_json::{json, Value};
use std::collections::BTreeSet;

pub const TRIGGER_BITS: [(&str, u32); 20] = [
    ("orbit", 0), ("hb", 1), ("hbr", 2), ("hc", 3), ("pht", 4), ("pp", 5), ("cal", 6), ("sot", 7), ("eot", 8), ("soc", 9), ("eoc", 10), ("tf", 11),
    ("fe_rst", 12), ("rt", 13), ("rs", 14), ("lhc_gap1", 27), ("lhc_gap2", 28), ("tpc_sync", 29), ("tpc_rst", 30), ("tof", 31),
];

pub const SYS_NAMES: [(u8, &str); 20] = [
    (3, "TPC"), (4, "TRD"), (5, "TOF"), (6, "HMP"), (7, "PHS"), (8, "CPV"), (10, "MCH"), (15, "ZDC"), (17, "TRG"), (18, "EMC"), (19, "TST"), (32, "ITS"),
    (33, "FDD"), (34, "FT0"), (35, "FV0"), (36, "MFT"), (37, "MID"), (38, "DCS"), (39, "FOC"), (255, "Unloaded"),
];

#[derive(Clone, Copy, Debug, PartialEq, Eq)]
enum SMode {
    Check(usize),
    ViewRdh,
    ViewFrames,
    ViewData,
    Write,
}

fn gen_input(t0: &mut Tape, labels: &mut Vec<String>) -> Vec<u8> {
    let mut g = t0.fork(8);
    if g.chance(2, 3) {
        labels.push("input:G_frame".into());
        let (s, l) = gen::gen_frame_stream(t0, &FrameOpts { max_packets: 260, word_payload: g.chance(1, 2), max_payload: if g.chance(1, 6) { 10_000 } else { 700 }, valid_layers: true, ..Default::default() });
        labels.extend(l);
        s.encode().0
    } else {
        labels.push("input:G_conf(+mut)".into());
        let mut cs = gen::gen_conf_stream(t0, &ConfOpts { max_links: 6, big_16: 3, ..Default::default() });
        if g.chance(1, 2) {
            let mut mt = t0.fork(200);
            let n = 1 + mt.below(6);
            gen::mutate_stream(&mut mt, &mut cs.stream, &MutOpts { protect_first: true, keep_framing: true, keep_layout: true }, n, &mut vec![]);
        }
        cs.stream.encode().0
    }
}

fn as_set_u64(v: &Value) -> BTreeSet<u64> {
    v.as_array().map(|a| a.iter().filter_map(|x| x.as_u64()).collect()).unwrap_or_default()
}

fn case(t0: &mut Tape, w: &Worker) -> CaseResult {
    let mut ot = t0.fork(32);
    let mut out = CaseOut::default();
    let bytes = gen_input(t0, &mut out.labels);
    let (walked, end) = walk(&bytes);
    if end != WalkEnd::CleanEof || walked.is_empty() {
        out.labels.push("skipped:not_well_framed".into());
        return Ok(out);
    }
    let rdhs: Vec<Rdh> = walked.iter().map(|x| x.rdh.clone()).collect();
    let mode = match ot.weighted(&[10, 2, 2, 2, 3]) {
        0 => SMode::Check(ot.below(5)),
        1 => SMode::ViewRdh,
        2 => SMode::ViewFrames,
        3 => SMode::ViewData,
        _ => SMode::Write,
    };
    let filter = if mode == SMode::Write { gen::gen_filter(&mut ot, &rdhs, false) } else { gen::gen_filter(&mut ot, &rdhs, true) };
    let analysed: Vec<&Rdh> = rdhs.iter().filter(|r| filter.matches(r)).collect();
    // by design the first *analysed* packet's system id decides whether processing continues
    if mode != SMode::Write {
        if let Some(f) = analysed.first() {
            if !KNOWN_SYSTEM_IDS.contains(&f.system_id) {
                out.excluded.push("first analysed packet has an unknown system id (processing stops by design)".into());
                out.labels.push("skipped:unknown_system_first_analysed".into());
                return Ok(out);
            }
        }
    }
    if !KNOWN_SYSTEM_IDS.contains(&rdhs[0].system_id) {
        out.labels.push("skipped:unknown_system_first".into());
        return Ok(out);
    }
    // the ITS views stop with a fatal error on an over-padded payload (by design): not a statistics matter
    let toml_fmt = ot.chance(1, 3);
    let stdin = ot.chance(1, 2);
    let sp = w.path(if toml_fmt { "st.toml" } else { "st.json" });
    let mut args: Vec<String> = match mode {
        SMode::Check(i) => ALL_MODES[i].args(),
        SMode::ViewRdh => vec!["view".into(), "rdh".into()],
        SMode::ViewFrames => vec!["view".into(), "its-readout-frames".into()],
        SMode::ViewData => vec!["view".into(), "its-readout-frames-data".into()],
        SMode::Write => vec![],
    };
    args.extend(filter.args());
    if mode == SMode::Write {
        args.extend(["-o".to_string(), w.path("out.raw").display().to_string()]);
    } else if filter != Filter::None && ot.chance(1, 4) {
        // an output destination next to a check / view is documented as ignored: the statistics stay the same
        args.extend(["-o".to_string(), w.path("ignored_out.raw").display().to_string()]);
        out.labels.push("opt:ignored_output".into());
    }
    // a statistics-level custom check (expected packet count), right or off by one: its failure is an error with its own code
    let custom_cdps: Option<usize> = if matches!(mode, SMode::Check(_)) && filter == Filter::None && ot.chance(1, 4) { Some(rdhs.len() + ot.below(2)) } else { None };
    if let Some(n) = custom_cdps {
        let f = w.write("cdps_checks.toml", format!("cdps = {n}\n").as_bytes());
        args.extend(["--checks-toml".to_string(), f.display().to_string()]);
        out.labels.push(if n == rdhs.len() { "opt:custom_cdps=truth".into() } else { "opt:custom_cdps=truth+1".into() });
    }
    if ot.chance(1, 5) {
        let v = *ot.pick(&["0", "2", "3"]);
        args.extend(["-v".to_string(), v.to_string()]);
        out.labels.push(format!("opt:-v{v}"));
    }
    args.extend(stats_args(&sp, toml_fmt));
    let mut case = CliCase::new(w, bytes.clone());
    let (spec, o) = case.run(args, stdin);
    if o.timed_out || o.crash_signature().is_some() {
        out.labels.push(format!("skipped:crash:{}", o.crash_signature().unwrap_or_default()));
        return Ok(out);
    }
    if cli::has_fatal(&o.stderr) {
        out.excluded.push("run reports a FATAL error (early stop): statistics incomplete by design".into());
        out.labels.push("skipped:fatal".into());
        return Ok(out);
    }
    let Some(st) = read_stats(&sp, toml_fmt) else {
        return Err(Fail::new("C14:no-stats-file", "statistics file missing or unparsable", json!({"cmd": spec.describe(), "out": o.brief(), "input": input_detail(&bytes)})));
    };
    let rs = &st["rdh_stats"];
    let es = &st["error_stats"];
    let mut diffs: Vec<(String, String)> = vec![];
    let mut chk = |name: &str, got: Value, want: Value| {
        if got != want {
            diffs.push((name.to_string(), format!("{name}: statistics say {got}, input says {want}")));
        }
    };
    chk("rdhs_seen", rs["rdhs_seen"].clone(), json!(rdhs.len()));
    chk("rdhs_filtered", rs["rdhs_filtered"].clone(), json!(if filter == Filter::None { 0 } else { analysed.len() }));
    let payload: u64 = analysed.iter().map(|r| r.memory_size.wrapping_sub(64) as u64).sum();
    chk("payload_size", rs["payload_size"].clone(), json!(payload));
    let links: Vec<u64> = rdhs.iter().map(|r| r.link_id as u64).collect::<BTreeSet<_>>().into_iter().collect();
    chk("links(sorted)", rs["links"].clone(), json!(links));
    let fees: BTreeSet<u64> = rdhs.iter().map(|r| r.fee_id as u64).collect();
    chk("fee_id(set)", json!(as_set_u64(&rs["fee_id"])), json!(fees));
    chk("fee_id(no duplicates)", json!(rs["fee_id"].as_array().map(|a| a.len()).unwrap_or(0)), json!(fees.len()));
    chk("run_trigger_type", rs["run_trigger_type"][0].clone(), json!(rdhs[0].trigger_type));
    chk("rdh_version", rs["rdh_version"].clone(), json!(rdhs[0].version));
    chk("data_format", rs["data_format"].clone(), json!(rdhs[0].data_format()));
    let sys_name = SYS_NAMES.iter().find(|x| x.0 == rdhs[0].system_id).map(|x| x.1).unwrap_or("?");
    chk("system_id", rs["system_id"].clone(), json!(sys_name));
    // errors: total = listed + custom; distinct codes = set of codes in the messages
    let listed: Vec<String> = es["reported_errors"].as_array().map(|a| a.iter().filter_map(|x| x.as_str().map(String::from)).collect()).unwrap_or_default();
    let custom = es["custom_checks_stats_errors"].as_array().map(|a| a.len()).unwrap_or(0);
    chk("total_errors", es["total_errors"].clone(), json!(listed.len() + custom));
    let re = regex::Regex::new(r"\[E([0-9]{2,4})\]").unwrap();
    let mut codes: BTreeSet<String> = listed.iter().flat_map(|m| re.captures_iter(m).map(|c| c[1].to_string()).collect::<Vec<_>>()).collect();
    if let Some(n) = custom_cdps {
        let want_custom = (n != rdhs.len()) as usize;
        chk("custom_checks_stats_errors(count)", json!(custom), json!(want_custom));
        if want_custom == 1 {
            codes.insert("9001".into());
        }
    }
    let got_codes: BTreeSet<String> = es["unique_error_codes"].as_array().map(|a| a.iter().filter_map(|x| x.as_str().map(String::from)).collect()).unwrap_or_default();
    chk("unique_error_codes", json!(got_codes), json!(codes));
    // distinct codes: every code once
    let listed_codes = es["unique_error_codes"].as_array().map(|a| a.len()).unwrap_or(0);
    chk("unique_error_codes(entries, each code once)", json!(listed_codes), json!(got_codes.len()));
    // analysed-packet statistics
    let analysing = mode != SMode::Write;
    let hbfs = if analysing { analysed.iter().filter(|r| r.stop_bit == 1).count() } else { 0 };
    chk("hbfs_seen", rs["hbfs_seen"].clone(), json!(hbfs));
    let first_its = analysed.first().map(|r| r.system_id == 0x20).unwrap_or(false);
    let ls: BTreeSet<(u64, u64)> = if analysing && first_its { analysed.iter().map(|r| (r.layer() as u64, r.stave() as u64)).collect() } else { BTreeSet::new() };
    let got_ls: BTreeSet<(u64, u64)> = rs["its_stats"]["layer_staves_seen"].as_array().map(|a| a.iter().filter_map(|p| Some((p[0].as_u64()?, p[1].as_u64()?))).collect()).unwrap_or_default();
    chk("layer_staves_seen", json!(got_ls), json!(ls));
    for (name, bit) in TRIGGER_BITS {
        let want = if analysing { analysed.iter().filter(|r| r.trigger_type & (1 << bit) != 0).count() } else { 0 };
        chk(&format!("trigger_stats.{name}"), rs["trigger_stats"][name].clone(), json!(want));
    }
    // report (check modes with data not on stdout print it)
    if let SMode::Check(_) = mode {
        let rows = cli::parse_report(&o.stdout_str());
        match cli::report_value(&rows, "Total RDHs") {
            Some(v) => chk("report:Total RDHs", json!(v), json!(rdhs.len().to_string())),
            // a check that visited at least one RDH prints its report (also for a single packet)
            // (judged by the presence of any sizeable output, not by a particular row label)
            None => {
                if o.stdout.len() < 200 {
                    chk("report:present", json!(false), json!(true))
                }
            }
        }
        if let Some(v) = cli::report_value(&rows, "Total Errors") {
            chk("report:Total Errors", json!(v), json!((listed.len() + custom).to_string()));
        }
        if filter == Filter::None {
            if let Some(v) = cli::report_value(&rows, "Total HBFs") {
                chk("report:Total HBFs", json!(v), json!(hbfs.to_string()));
            }
        } else if let Some(v) = cli::report_value(&rows, "RDHs") {
            chk("report:filtered RDHs", json!(v), json!(analysed.len().to_string()));
        }
        if let Some(v) = cli::report_value(&rows, "Run Trigger Type") {
            chk("report:Run Trigger Type", json!(u32::from_str_radix(v.trim_start_matches("0x").trim_start_matches("0X"), 16).ok()), json!(Some(rdhs[0].trigger_type)));
        }
    }
    if let Some((name, why)) = diffs.first() {
        let class = match mode {
            SMode::Check(_) => "check",
            SMode::Write => "write",
            _ => "view",
        };
        return Err(Fail::new(
            format!("C14:{class}:{name}"),
            why.clone(),
            json!({"all_differences": diffs.iter().map(|d| d.1.clone()).collect::<Vec<_>>(), "mode": format!("{mode:?}"), "filter": format!("{filter:?}"), "cmd": spec.describe(), "input": input_detail(&bytes)}),
        ));
    }
    out.labels.push(format!("mode:{}", match mode { SMode::Check(i) => ALL_MODES[i].name().to_string(), m => format!("{m:?}") }));
    out.labels.push(filter.label().into());
    out.labels.push(if toml_fmt { "stats:toml".into() } else { "stats:json".into() });
    let n_links = links.len();
    out.nontrivial = (filter != Filter::None && analysed.len() < rdhs.len()) || rdhs.len() >= 101 || n_links >= 2;
    if rdhs.len() >= 101 {
        out.labels.push("packets>=101".into());
    }
    if payload > 65536 {
        out.labels.push("payload_total>2^16".into());
    }
    out.fingerprint = fnv64(&bytes) ^ fnv64(format!("{mode:?}{filter:?}").as_bytes());
    out.execs = case.execs;
    if w.take_sample() {
        out.sample = Some(json!({"mode": format!("{mode:?}"), "filter": format!("{filter:?}"), "packets": rdhs.len(), "analysed": analysed.len(), "links": links, "rdh_stats": rs}));
    }
    Ok(out)
}

/// hand-built reproduction of the repaired defect F13: statistics written in a view mode must list the links sorted
fn regress_case(i: u64, w: &Worker) -> CaseResult {
    let mut bytes = vec![];
    for link in [5u8, 2, 9, 0] {
        let mut r = Rdh { link_id: link, ..Rdh::default() };
        r.set_sizes(0);
        bytes.extend_from_slice(&r.encode());
    }
    let sp = w.path("st.json");
    let mut args: Vec<String> = if i % 2 == 0 { vec!["view".into(), "rdh".into()] } else { vec!["-f".into(), "2".into(), "-o".into(), "stdout".into()] };
    args.extend(stats_args(&sp, false));
    let mut case = CliCase::new(w, bytes.clone());
    let (spec, _o) = case.run(args, false);
    let st = read_stats(&sp, false).unwrap_or(json!({}));
    if st["rdh_stats"]["links"] != json!([0, 2, 5, 9]) {
        return Err(Fail::new("C14:view:links(sorted)", format!("links = {}", st["rdh_stats"]["links"]), json!({"cmd": spec.describe(), "input": input_detail(&bytes)})));
    }
    let mut out = CaseOut::default();
    out.nontrivial = true;
    out.fingerprint = 0xF13 + i;
    out.execs = 1;
    out.labels.push("regress:F13".into());
    Ok(out)
}

pub fn build() -> Property {
    Property {
        id: "C14",
        rule: "G_frame streams (arbitrary header values, packet counts up to 260 incl. 99..101 and 199..201, payload totals beyond 2^16, colliding populations, any of the 20 known system ids on packet 0) and G_conf streams with G_mut edits \
               x modes {5 checks, 3 views, filtered writing} x filter {none, link, FEE, stave; present / absent} x {JSON, TOML} x {file, pipe} (+ occasionally -v 0/2/3 and, next to a check or view with a filter, an ignored -o destination). Ground truth recomputed from the input with the independent walker: RDHs visited (all packets read), RDHs matching, \
               payload bytes of the packets handed on, sorted link set, FEE-id set (no duplicates), run trigger type / version / data format / system id of packet 0, total errors = listed + custom, distinct codes = codes in the listed messages (+ 9001 when a configured packet count is off: a quarter of the unfiltered check runs configure `cdps` = truth or truth + 1); \
               in check and view modes additionally HBFs (stop bit exactly 1), layer/stave set (if the first analysed packet is ITS) and the 20 per-bit trigger counters over the packets handed on; in write mode those are 0. Report rows are cross-checked. \
               Non-trivial = a filter that skips packets, >= 101 packets, or >= 2 links.",
        assumptions: vec![
            "sets are compared as sets (first-seen order of FEE ids / layer-staves is not part of the statement); links must be sorted".into(),
            "runs that stop early with a FATAL error and inputs whose first analysed packet has an unknown system id are excluded (counted)".into(),
        ],
        phases: vec![Phase { name: "regress_fixed", kind: PhaseKind::Enum { n: (2, 2), exhaustive: (false, false), f: Box::new(regress_case) }, threads: 2 }, Phase { name: "cli_stats", kind: PhaseKind::Gen { cases: (7000, 50000), tape_len: 8 + 32 + 64 + 2000 + 6 * 4000 + 14000 + 200, f: Box::new(case) }, threads: 16 }],
    }
}
