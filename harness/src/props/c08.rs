//! C08 - filtered output is exact, lossless and partitions the input

use super::common::*;
use crate::cli::{self, Input, RunSpec};
use crate::engine::*;
use crate::gen::{self, FrameOpts};
use crate::model::*;
use crate::tape::{fnv64, Tape};
use serde_json::json;
use std::collections::BTreeSet;
use std::sync::Arc;

#[derive(Clone, Copy, Debug, PartialEq, Eq)]
enum Dest {
    File,
    StdoutExplicit,
    StdoutDefault,
}

fn run_filter(w: &Worker, data: &Arc<Vec<u8>>, filter: &Filter, dest: Dest, stdin: bool, execs: &mut u64) -> Result<(RunSpec, Vec<u8>, Option<u64>), Fail> {
    let out_file = w.path("out.raw");
    let stats = w.path("st.json");
    let mut args = filter.args();
    match dest {
        Dest::File => args.extend(["-o".to_string(), out_file.display().to_string()]),
        Dest::StdoutExplicit => args.extend(["-o".to_string(), "stdout".to_string()]),
        Dest::StdoutDefault => {}
    }
    args.extend(stats_args(&stats, false));
    // every other input: the destination path already exists and holds more bytes than the run will write
    // (a path reused from an earlier run); the output must still be exactly the matching packets
    if dest == Dest::File && crate::tape::fnv64(data) % 2 == 0 {
        let _ = std::fs::write(&out_file, vec![0xA5u8; data.len() + 4096]);
    }
    let input = if stdin {
        Input::Pipe(data.clone(), 0)
    } else {
        let p = w.write("in.raw", data);
        args.insert(0, p.display().to_string());
        Input::File(p)
    };
    let spec = RunSpec::new(args, input);
    let o = cli::run(&w.cli, &spec);
    *execs += 1;
    if o.timed_out || o.crash_signature().is_some() || o.code != Some(0) {
        return Err(Fail::new(
            format!("C08:run-failed:{}", o.crash_signature().unwrap_or_else(|| format!("exit{:?}", o.code))),
            "filter run crashed, hung or exited non-zero on a well-framed input",
            json!({"cmd": spec.describe(), "out": o.brief(), "input": input_detail(data)}),
        ));
    }
    let bytes = match dest {
        Dest::File => std::fs::read(&out_file).unwrap_or_default(),
        _ => o.stdout.clone(),
    };
    let filtered = read_stats(&stats, false).and_then(|s| s["rdh_stats"]["rdhs_filtered"].as_u64());
    let _ = std::fs::remove_file(&out_file);
    Ok((spec, bytes, filtered))
}

fn case(t0: &mut Tape, w: &Worker) -> CaseResult {
    let mut ot = t0.fork(32);
    let (s, mut labels) = gen::gen_frame_stream(
        t0,
        &FrameOpts {
            max_packets: 310,
            word_payload: false,
            max_payload: if ot.chance(1, 10) { 10_000 } else { 500 },
            all_rdh0_valid: true,
            // one case in 40: 101..140 packets that all carry more than 8 KiB (full batches of the reader)
            near_max: ot.chance(1, 40),
            ..Default::default()
        },
    );
    // the header-size byte of one packet (not the first of the file) is wrong: framing is unaffected (payload size and
    // offset come from their own fields), so the packet is filtered and copied like any other
    let mut s = s;
    if ot.chance(1, 5) && s.n_packets() >= 2 {
        let first_link = s.order.first().copied().unwrap_or(0);
        let li = ot.below(s.links.len());
        let np = s.links[li].packets.len();
        if np > 0 {
            let pi = ot.below(np);
            if !(li == first_link && pi == 0) {
                s.links[li].packets[pi].rdh.header_size = *ot.pick(&[0x20u8, 0x50, 0x00, 0x41, 0xFF]);
                labels.push("odd_header_size_byte".into());
            }
        }
    }
    let (bytes, _lay) = s.encode();
    let (walked, end) = walk(&bytes);
    assert_eq!(end, WalkEnd::CleanEof);
    let data = Arc::new(bytes.clone());
    let kind = ot.below(3);
    let dest = *ot.pick(&[Dest::File, Dest::StdoutExplicit, Dest::StdoutDefault]);
    let stdin = ot.chance(1, 2);
    // all distinct values of the kind present + absent ones
    let mut values: Vec<Filter> = match kind {
        0 => walked.iter().map(|x| x.rdh.link_id).collect::<BTreeSet<_>>().into_iter().map(Filter::Link).collect(),
        1 => walked.iter().map(|x| x.rdh.fee_id).collect::<BTreeSet<_>>().into_iter().map(Filter::Fee).collect(),
        _ => walked.iter().map(|x| (x.rdh.layer(), x.rdh.stave())).collect::<BTreeSet<_>>().into_iter().map(|(l, s)| Filter::Stave(l, s)).collect(),
    };
    let n_present = values.len();
    for _ in 0..2 {
        let f = match kind {
            0 => Filter::Link(ot.u8()),
            1 => Filter::Fee(ot.u16()),
            _ => Filter::Stave(ot.below(7) as u8, ot.below(48) as u8),
        };
        if !values.contains(&f) && !walked.iter().any(|x| f.matches(&x.rdh)) {
            values.push(f);
        }
    }
    let mut execs = 0u64;
    let mut covered = vec![0u32; walked.len()];
    for f in &values {
        let (spec, out, filtered) = run_filter(w, &data, f, dest, stdin, &mut execs)?;
        let mut expected = vec![];
        let mut n_match = 0u64;
        for (i, x) in walked.iter().enumerate() {
            if f.matches(&x.rdh) {
                expected.extend_from_slice(&bytes[x.offset as usize..x.payload_end]);
                covered[i] += 1;
                n_match += 1;
            }
        }
        let detail = |what: &str| json!({"what": what, "filter": format!("{f:?}"), "dest": format!("{dest:?}"), "stdin": stdin, "cmd": spec.describe(), "got_len": out.len(), "expected_len": expected.len(), "input": input_detail(&bytes)});
        if out != expected {
            let kind = if out.len() < expected.len() && expected.starts_with(&out) {
                "truncated"
            } else if out.len() > expected.len() {
                "extra-bytes"
            } else {
                "altered"
            };
            return Err(Fail::new(format!("C08:output-{kind}:{dest:?}"), format!("filtered output differs from the concatenation of the matching packets ({kind}: {} vs {} bytes)", out.len(), expected.len()), detail("content")));
        }
        let (_, wend) = walk(&out);
        if wend != WalkEnd::CleanEof {
            return Err(Fail::new("C08:output-not-well-framed", format!("output does not walk as a chain: {wend:?}"), detail("framing")));
        }
        if let Some(nf) = filtered {
            if nf != n_match {
                return Err(Fail::new("C08:rdhs-filtered-count", format!("rdhs_filtered = {nf}, matching packets = {n_match}"), detail("count")));
            }
        }
        // idempotence: filtering the output again with the same filter reproduces it
        // (an output whose first packet has the odd header-size byte is refused as a new input by the documented pre-check)
        if !out.is_empty() && out[1] == 0x40 {
            let od = Arc::new(out.clone());
            let (spec2, out2, _) = run_filter(w, &od, f, Dest::File, !stdin, &mut execs)?;
            if out2 != out {
                return Err(Fail::new("C08:refilter-differs", format!("filtering the output again gives {} bytes instead of {}", out2.len(), out.len()), json!({"filter": format!("{f:?}"), "cmd": spec2.describe(), "input": input_detail(&bytes)})));
            }
        }
    }
    // partition: over all present values every packet is covered exactly once
    if let Some(i) = covered.iter().position(|c| *c != 1) {
        return Err(Fail::new(
            "C08:not-a-partition",
            format!("packet {i} at {:#X} is covered {} times by the outputs of all distinct filter values", walked[i].offset, covered[i]),
            json!({"kind": kind, "input": input_detail(&bytes)}),
        ));
    }
    let mut out = CaseOut::default();
    labels.push(["kind:link", "kind:fee", "kind:stave"][kind].to_string());
    labels.push(format!("dest:{dest:?}"));
    labels.push(if stdin { "src:pipe".into() } else { "src:file".into() });
    labels.push(format!("distinct_values:{}", n_present.min(5)));
    out.nontrivial = n_present >= 2 && walked.iter().any(|x| x.payload_end > x.payload_start);
    out.fingerprint = fnv64(&bytes) ^ fnv64(format!("{kind}{dest:?}{stdin}").as_bytes());
    out.execs = execs;
    if w.take_sample() {
        out.sample = Some(json!({"packets": walked.len(), "kind": kind, "values": values.iter().map(|f| format!("{f:?}")).collect::<Vec<_>>(), "dest": format!("{dest:?}"), "stdin": stdin, "runs": execs}));
    }
    out.labels = labels;
    Ok(out)
}

/// More matching packets than the writer buffers (2^20 packets) so that it has to write part of the output before the
/// end of the run: the output must still be exactly the matching packets, once each, in order.
fn huge_output_case(i: u64, w: &Worker) -> CaseResult {
    let n: usize = (1 << 20) + 1500 + (i as usize % 5) * 997;
    let mut bytes: Vec<u8> = Vec::with_capacity(n * 64);
    let mut expected: Vec<u8> = Vec::with_capacity(n * 64);
    let keep_link = 5u8;
    for k in 0..n {
        let other = k % 1000 == 999;
        let r = Rdh { link_id: if other { 6 } else { keep_link }, fee_id: fee_id(3, 0, 4), orbit: (k / 2) as u32, pages_counter: (k % 2) as u16, stop_bit: (k % 2) as u8, packet_counter: k as u8, ..Rdh::default() };
        let mut p = Packet::new(r);
        p.fix_sizes();
        let e = p.encode();
        if !other {
            expected.extend_from_slice(&e);
        }
        bytes.extend_from_slice(&e);
    }
    let to_file = i % 2 == 0;
    let inp = w.write("huge_in.raw", &bytes);
    let out_file = w.path("huge_out.raw");
    let mut args = vec![inp.display().to_string(), "--filter-link".to_string(), keep_link.to_string()];
    if to_file {
        args.extend(["-o".to_string(), out_file.display().to_string()]);
    }
    let mut spec = RunSpec::new(args, Input::File(inp.clone()));
    spec.timeout = std::time::Duration::from_secs(300);
    let o = cli::run(&w.cli, &spec);
    let got = if to_file { std::fs::read(&out_file).unwrap_or_default() } else { o.stdout.clone() };
    let _ = std::fs::remove_file(&out_file);
    let _ = std::fs::remove_file(&inp);
    let mut out = CaseOut::default();
    out.execs = 1;
    if o.timed_out {
        out.labels.push("inconclusive:timeout".into());
        return Ok(out);
    }
    let detail = json!({"packets": n, "matching": expected.len() / 64, "destination": if to_file { "file" } else { "stdout" }, "cmd": spec.describe(), "exit": o.code, "output_len": got.len(), "expected_len": expected.len()});
    if o.crash_signature().is_some() || o.code != Some(0) {
        return Err(Fail::new(format!("C08:huge-output:run-failed:{}", o.crash_signature().unwrap_or_else(|| format!("exit{:?}", o.code))), "filter run with more than 2^20 matching packets crashed or exited non-zero", detail));
    }
    if got != expected {
        let first = got.iter().zip(expected.iter()).position(|(a, b)| a != b).unwrap_or(got.len().min(expected.len()));
        return Err(Fail::new(
            format!("C08:huge-output:{}", if got.len() > expected.len() { "extra-bytes" } else if got.len() < expected.len() { "truncated" } else { "altered" }),
            format!("output of {} bytes differs from the {} bytes of the matching packets (first difference at byte {first}, packet {})", got.len(), expected.len(), first / 64),
            detail,
        ));
    }
    out.nontrivial = true;
    out.fingerprint = n as u64 ^ to_file as u64;
    out.labels.push(format!("huge_output:{}", if to_file { "file" } else { "stdout" }));
    if w.take_sample() {
        out.sample = Some(detail);
    }
    Ok(out)
}

pub fn build() -> Property {
    Property {
        id: "C08",
        rule: "G_frame well-framed streams (any header values outside RDH0, payload sizes 0..10000, packet counts incl. 99..101 / 199..201 / 300, colliding link / FEE / stave populations; every RDH0 passes the documented pre-check because any packet may \
               become the first packet of an output) x filter kind {link, FEE, layer/stave} x destination {-o file, -o stdout, default stdout} (for every other input the destination file exists beforehand and is longer than the output) x source {file, pipe}. The tool is run once per distinct filter value present plus absent values, \
               then again on every output. Oracle (independent walker + predicate): output == concatenation in input order of exactly the matching packets; the outputs of all distinct values cover every packet exactly once; every output walks as a \
               well-framed chain; filter(output) == output; rdhs_filtered == number of matching packets. Non-trivial = >= 2 distinct values present and a non-empty payload; distinct by stream hash x kind x destination x source. Phase huge_output: one (thorough: four) stream of more than 2^20 matching RDH-only packets (the writer buffers 2^20 packets before it writes for the first time), to a file / to stdout: output byte-identical to the matching packets.",
        assumptions: vec!["every packet's RDH0 passes the pre-check and carries a known system id (a derived file starts with an arbitrary packet of the input)".into()],
        phases: vec![
            Phase {
                name: "cli_filter_write",
                kind: PhaseKind::Gen { cases: (1600, 12000), tape_len: 6000, f: Box::new(case) },
                threads: 16,
            },
            Phase { name: "huge_output", kind: PhaseKind::Enum { n: (1, 4), exhaustive: (false, false), f: Box::new(huge_output_case) }, threads: 2 },
        ],
    }
}
