//! C02 - every documented violation is detected with its code and location

use super::common::*;
use crate::cli;
use crate::engine::*;
use crate::gen::{self, ConfOpts, ConfStream};
use crate::inproc::{Mode, ALL_MODES};
use crate::model::*;
use crate::tape::{fnv64, Tape};
use serde_json::json;

#[derive(Clone, Debug)]
pub enum Loc {
    Rdh(usize, usize),         // (link, packet idx in link)
    Word(usize, usize, usize), // (link, packet idx, word idx)
}

#[derive(Clone, Debug)]
pub struct Fault {
    pub name: String,
    /// accepted first codes of the message at the location ("" = the uncoded padding message)
    pub codes: Vec<&'static str>,
    pub loc: Loc,
    pub active: Vec<Mode>,
    /// running (stateful) rule: `check sanity*` must stay completely silent
    pub stateful: bool,
    pub value_class: String,
}

const ALL5: [Mode; 5] = ALL_MODES;
const ITS3: [Mode; 3] = [Mode::SanityIts, Mode::AllIts, Mode::AllItsStave];
const RUN_ITS: [Mode; 2] = [Mode::AllIts, Mode::AllItsStave];
const RUN3: [Mode; 3] = [Mode::All, Mode::AllIts, Mode::AllItsStave];

fn pick_packet(t: &mut Tape, cs: &ConfStream, pred: &dyn Fn(usize, usize, &Packet) -> bool) -> Option<(usize, usize)> {
    let mut c = vec![];
    for (li, l) in cs.stream.links.iter().enumerate() {
        for (pi, p) in l.packets.iter().enumerate() {
            if pred(li, pi, p) {
                c.push((li, pi));
            }
        }
    }
    if c.is_empty() {
        None
    } else {
        // position classes first / middle / last weighted
        let i = match t.below(3) {
            0 => 0,
            1 => c.len() - 1,
            _ => t.below(c.len()),
        };
        Some(c[i])
    }
}

fn pick_word(t: &mut Tape, cs: &ConfStream, pred: &dyn Fn(&Packet, usize) -> bool) -> Option<(usize, usize, usize)> {
    let mut c = vec![];
    for (li, l) in cs.stream.links.iter().enumerate() {
        for (pi, p) in l.packets.iter().enumerate() {
            for wi in 0..p.words.len() {
                if pred(p, wi) {
                    c.push((li, pi, wi));
                }
            }
        }
    }
    if c.is_empty() {
        None
    } else {
        let i = match t.below(3) {
            0 => 0,
            1 => c.len() - 1,
            _ => t.below(c.len()),
        };
        Some(c[i])
    }
}

/// is (li,pi) the very first packet of the file?
fn is_first_of_file(cs: &ConfStream, li: usize, pi: usize) -> bool {
    pi == 0 && cs.stream.order.first() == Some(&li)
}

pub const N_ENTRIES: usize = 49;

/// apply catalogue entry `e` ; None if not applicable to this stream
pub fn apply_fault(e: usize, t: &mut Tape, cs: &mut ConfStream) -> Option<Fault> {
    let first_link = cs.stream.order.first().copied();
    let nff = move |li: usize, pi: usize, _p: &Packet| !(pi == 0 && Some(li) == first_link);
    macro_rules! rdh_fault {
        ($name:expr, $pred:expr, $active:expr, $stateful:expr, $codes:expr, $vc:expr, |$r:ident, $tt:ident| $body:block) => {{
            let (li, pi) = pick_packet(t, cs, &$pred)?;
            {
                let $r = &mut cs.stream.links[li].packets[pi].rdh;
                let $tt = &mut *t;
                $body
            }
            return Some(Fault { name: $name.to_string(), codes: $codes.to_vec(), loc: Loc::Rdh(li, pi), active: $active.to_vec(), stateful: $stateful, value_class: $vc.to_string() });
        }};
    }
    match e {
        // ------------------------------------------------------------------ RDH sanity (E10)
        0 => rdh_fault!("rdh:header_id", |_l: usize, pi: usize, _p: &Packet| pi > 0, ALL5, false, ["10"], "version^1", |r, _t| { r.version = if r.version == 7 { 6 } else { 7 }; }),
        1 => rdh_fault!("rdh:header_size", nff, ALL5, false, ["10"], "size", |r, t| { r.header_size = *t.pick(&[0u8, 0x3F, 0x41, 0xFF]); }),
        2 => rdh_fault!("rdh:fee_layer7", |_l: usize, pi: usize, _p: &Packet| pi > 0, [Mode::Sanity, Mode::All, Mode::SanityIts, Mode::AllIts], false, ["10"], "layer7", |r, _t| { r.fee_id |= 0x7000; }),
        3 => rdh_fault!("rdh:fee_stave", |_l: usize, pi: usize, _p: &Packet| pi > 0, [Mode::Sanity, Mode::All, Mode::SanityIts, Mode::AllIts], false, ["10"], "stave48..63", |r, t| { r.fee_id = (r.fee_id & !0x3F) | (48 + t.below(16) as u16); }),
        4 => rdh_fault!("rdh:fee_reserved", |_l: usize, pi: usize, _p: &Packet| pi > 0, [Mode::Sanity, Mode::All, Mode::SanityIts, Mode::AllIts], false, ["10"], "reserved bit", |r, t| { r.fee_id |= *t.pick(&[0x8000u16, 0x0800, 0x0400, 0x0080, 0x0040]); }),
        5 => rdh_fault!("rdh:priority", nff, ALL5, false, ["10"], "priority", |r, t| { r.priority = *t.pick(&[1u8, 0x80, 0xFF]); }),
        6 => rdh_fault!("rdh:rdh0_reserved", nff, ALL5, false, ["10"], "reserved bit", |r, t| { r.rdh0_reserved = 1 << t.below(16); }),
        7 => rdh_fault!("rdh:bc", |_l: usize, _pi: usize, _p: &Packet| true, ALL5, false, ["10"], "0xDEC..0xFFF", |r, t| { r.bc_word = *t.pick(&[0xDECu32, 0xDED, 0xFFF, 0xE00]); }),
        8 => rdh_fault!("rdh:rdh1_reserved", |_l: usize, _pi: usize, _p: &Packet| true, ALL5, false, ["10"], "reserved bit", |r, t| { r.bc_word |= 1 << (12 + t.below(20)); }),
        9 => rdh_fault!("rdh:stop_bit>1", |_l: usize, _pi: usize, _p: &Packet| true, ALL5, false, ["10"], "2..255", |r, t| { r.stop_bit = *t.pick(&[2u8, 3, 0x80, 0xFF]); }),
        10 => rdh_fault!("rdh:trigger_zero", |_l: usize, _pi: usize, _p: &Packet| true, ALL5, false, ["10"], "0", |r, _t| { r.trigger_type = 0; }),
        11 => rdh_fault!("rdh:trigger_spare", |_l: usize, _pi: usize, _p: &Packet| true, ALL5, false, ["10"], "spare bit 15..26", |r, t| { r.trigger_type |= 1 << (15 + t.below(12)); }),
        12 => rdh_fault!("rdh:rdh2_reserved", |_l: usize, _pi: usize, _p: &Packet| true, ALL5, false, ["10"], "reserved bit", |r, t| { r.rdh2_reserved = 1 << t.below(8); }),
        13 => rdh_fault!("rdh:rdh3_reserved", |_l: usize, _pi: usize, _p: &Packet| true, ALL5, false, ["10"], "reserved bit", |r, t| { r.rdh3_reserved = 1 << t.below(16); }),
        14 => rdh_fault!("rdh:detector_reserved", |_l: usize, _pi: usize, _p: &Packet| true, ALL5, false, ["10"], "bit 12..23", |r, t| { r.detector_field |= 1 << (12 + t.below(12)); }),
        15 => rdh_fault!("rdh:dw", |_l: usize, _pi: usize, _p: &Packet| true, ALL5, false, ["10"], "2..15", |r, t| { r.cruid_dw = (r.cruid_dw & 0x0FFF) | ((2 + t.below(14) as u16) << 12); }),
        16 => rdh_fault!("rdh:data_format", |_l: usize, _pi: usize, p: &Packet| p.rdh.data_format() == 2, ALL5, false, ["10"], "3..255", |r, t| { r.format_word = *t.pick(&[3u64, 4, 0x80, 0xFF]); }),
        17 => rdh_fault!("rdh:system_id", nff, ITS3, false, ["10"], "!=0x20", |r, t| { r.system_id = *t.pick(&[0x21u8, 0x1F, 0, 3]); }),
        // ------------------------------------------------------------------ RDH running (E11), stateful
        18 => rdh_fault!("running:pages_counter", |_l: usize, pi: usize, _p: &Packet| pi >= 2, RUN3, true, ["11"], "+1/+2", |r, t| { r.pages_counter = r.pages_counter.wrapping_add(1 + t.below(2) as u16); }),
        19 => rdh_fault!("running:trigger_changed_in_hbf", |_l: usize, pi: usize, p: &Packet| pi >= 2 && p.rdh.pages_counter != 0, RUN3, true, ["11"], "bit flip", |r, t| { let bit = t.below(15); let old = r.trigger_type; r.trigger_type = old ^ (1 << bit); if r.trigger_type == 0 { r.trigger_type = old | (1 << ((bit + 1) % 15)); } }),
        20 => {
            // same orbit after stop: whole HBF k+1 takes the orbit of HBF k (TDHs follow so that nothing else breaks)
            let mut cands = vec![];
            for (li, l) in cs.stream.links.iter().enumerate() {
                for pi in 1..l.packets.len() {
                    if l.packets[pi].rdh.pages_counter == 0 && l.packets[pi - 1].rdh.stop_bit == 1 {
                        cands.push((li, pi));
                    }
                }
            }
            if cands.is_empty() {
                return None;
            }
            let (li, pi) = cands[t.below(cands.len())];
            let prev_orbit = cs.stream.links[li].packets[pi - 1].rdh.orbit;
            let old = cs.stream.links[li].packets[pi].rdh.orbit;
            let l = &mut cs.stream.links[li];
            let mut j = pi;
            while j < l.packets.len() && l.packets[j].rdh.orbit == old {
                l.packets[j].rdh.orbit = prev_orbit;
                for w in l.packets[j].words.iter_mut() {
                    if w[9] == ID_TDH && u32::from_le_bytes([w[4], w[5], w[6], w[7]]) == old {
                        w[4..8].copy_from_slice(&prev_orbit.to_le_bytes());
                    }
                }
                j += 1;
            }
            // the following HBF must not end up with the same orbit by accident
            if j < l.packets.len() && l.packets[j].rdh.orbit == prev_orbit {
                return None;
            }
            Some(Fault { name: "running:same_orbit_after_stop".into(), codes: vec!["11"], loc: Loc::Rdh(li, pi), active: RUN3.to_vec(), stateful: true, value_class: "orbit".into() })
        }
        21 => rdh_fault!("running:orbit_changed_in_hbf", |_l: usize, pi: usize, p: &Packet| pi >= 2 && p.rdh.pages_counter != 0 && p.rdh.stop_bit == 1, RUN3, true, ["11"], "orbit+1", |r, _t| { r.orbit = r.orbit.wrapping_add(0x100); }),
        // ------------------------------------------------------------------ payload padding
        22 => {
            // the limit is a property of the payload, not of one data format: format-0 payloads (16-byte slots) followed
            // by more than 15 bytes of 0xFF are over-padded as well
            let (li, pi) = pick_packet(t, cs, &|_l, _pi, p: &Packet| !p.words.is_empty())?;
            let p = &mut cs.stream.links[li].packets[pi];
            p.pad = 16 + t.below(25);
            p.fix_sizes();
            let fmt = p.rdh.data_format();
            Some(Fault { name: format!("payload:padding>15:format{fmt}"), codes: vec![""], loc: Loc::Rdh(li, pi), active: ITS3.to_vec(), stateful: false, value_class: format!("pad{}", if p.pad == 16 { "=16" } else { ">16" }) })
        }
        // ------------------------------------------------------------------ status word identifiers / reserved bits (sanity level)
        23 => {
            let (li, pi, wi) = pick_word(t, cs, &|p, wi| wi == 0 && p.words[0][9] == ID_IHW)?;
            cs.stream.links[li].packets[pi].words[wi][9] = *t.pick(&[0xE1u8, 0xE2, 0x00, 0xC0]);
            // at the start of a later page of an HBF the IHW is one of three legal words (choice state): E990 / E992 there
            Some(Fault { name: "ihw:id".into(), codes: vec!["30", "990", "992"], loc: Loc::Word(li, pi, wi), active: ITS3.to_vec(), stateful: false, value_class: "id".into() })
        }
        24 => {
            let (li, pi, wi) = pick_word(t, cs, &|p, wi| p.words[wi][9] == ID_IHW)?;
            let bit = 28 + t.below(44);
            cs.stream.links[li].packets[pi].words[wi][bit / 8] |= 1 << (bit % 8);
            Some(Fault { name: "ihw:reserved".into(), codes: vec!["30"], loc: Loc::Word(li, pi, wi), active: ITS3.to_vec(), stateful: false, value_class: "reserved bit".into() })
        }
        25 => {
            let (li, pi, wi) = pick_word(t, cs, &|p, wi| wi == 1 && p.words[1][9] == ID_TDH)?;
            cs.stream.links[li].packets[pi].words[wi][9] = *t.pick(&[0xE9u8, 0xEA, 0xE0, 0x00]);
            Some(Fault { name: "tdh:id(after IHW)".into(), codes: vec!["40"], loc: Loc::Word(li, pi, wi), active: ITS3.to_vec(), stateful: false, value_class: "id".into() })
        }
        26 => {
            let (li, pi, wi) = pick_word(t, cs, &|p, wi| p.words[wi][9] == ID_TDH)?;
            let w = &mut cs.stream.links[li].packets[pi].words[wi];
            match t.below(3) {
                0 => w[1] |= 0x80,
                1 => w[3] |= 0x10 << t.below(4),
                _ => w[8] |= 1 << t.below(8),
            }
            Some(Fault { name: "tdh:reserved".into(), codes: vec!["40"], loc: Loc::Word(li, pi, wi), active: ITS3.to_vec(), stateful: false, value_class: "reserved bit".into() })
        }
        27 => {
            // trigger type 0 and internal trigger 0 (not the mirror-the-RDH TDH of page 0: that would add running errors only, fine either way)
            let (li, pi, wi) = pick_word(t, cs, &|p, wi| p.words[wi][9] == ID_TDH)?;
            let w = &mut cs.stream.links[li].packets[pi].words[wi];
            w[0] = 0;
            w[1] &= 0xE0;
            Some(Fault { name: "tdh:no_trigger".into(), codes: vec!["40"], loc: Loc::Word(li, pi, wi), active: ITS3.to_vec(), stateful: false, value_class: "tt=0,internal=0".into() })
        }
        28 => {
            let (li, pi, wi) = pick_word(t, cs, &|p, wi| p.words[wi][9] == ID_TDT)?;
            let w = &mut cs.stream.links[li].packets[pi].words[wi];
            match t.below(3) {
                0 => w[7] |= 1 << t.below(5),
                1 => w[8] |= 0x04,
                _ => w[8] |= 0x10 << t.below(4),
            }
            Some(Fault { name: "tdt:reserved".into(), codes: vec!["50"], loc: Loc::Word(li, pi, wi), active: ITS3.to_vec(), stateful: false, value_class: "reserved bit".into() })
        }
        29 => {
            let (li, pi, wi) = pick_word(t, cs, &|p, wi| p.words[wi][9] == ID_DDW0)?;
            let w = &mut cs.stream.links[li].packets[pi].words[wi];
            let vc = match t.below(3) {
                0 => {
                    w[7] |= 1 << t.below(8);
                    "reserved 63:56"
                }
                1 => {
                    w[8] |= *t.pick(&[0x01u8, 0x04]);
                    "reserved 64/66"
                }
                _ => {
                    w[8] |= 0x10 << t.below(4);
                    "index != 0"
                }
            };
            Some(Fault { name: "ddw0:reserved_or_index".into(), codes: vec!["60"], loc: Loc::Word(li, pi, wi), active: ITS3.to_vec(), stateful: false, value_class: vc.into() })
        }
        // ------------------------------------------------------------------ unknown ids in choice states
        30 => {
            // in data state
            let (li, pi, wi) = pick_word(t, cs, &|p, wi| kind_of_id(p.words[wi][9]) == WordKind::Data)?;
            let mut id = *t.pick(&[0x1Fu8, 0x29, 0x3F, 0x47, 0x4F, 0x57, 0x5F, 0x00, 0x60, 0xFF, 0xF8]);
            let p = &mut cs.stream.links[li].packets[pi];
            // 0xF8 is a calibration word at the start of the data of a packet only; behind a data word it is an invalid data word id
            if id == 0xF8 && !(wi > 0 && kind_of_id(p.words[wi - 1][9]) == WordKind::Data) {
                id = 0x5F;
            }
            // an id of 0xFF as very last byte of a format-2 payload would read as padding: avoid that corner
            let id = if id == 0xFF { 0xFE } else { id };
            p.words[wi][9] = id;
            Some(Fault { name: "data:unknown_id".into(), codes: vec!["991", "70"], loc: Loc::Word(li, pi, wi), active: ITS3.to_vec(), stateful: false, value_class: format!("id {id:#04X}") })
        }
        31 => {
            // directly after a TDT with packet_done (same packet): the following TDH gets an unknown id
            let (li, pi, wi) = pick_word(t, cs, &|p, wi| wi > 0 && p.words[wi][9] == ID_TDH && p.words[wi - 1][9] == ID_TDT && p.words[wi - 1][8] & 1 == 1)?;
            cs.stream.links[li].packets[pi].words[wi][9] = *t.pick(&[0xE9u8, 0x01, 0xF1, 0x29]);
            Some(Fault { name: "after_tdt_done:unknown_id".into(), codes: vec!["992"], loc: Loc::Word(li, pi, wi), active: ITS3.to_vec(), stateful: false, value_class: "id".into() })
        }
        32 => {
            // directly after a no-data TDH (same packet)
            let (li, pi, wi) = pick_word(t, cs, &|p, wi| wi > 0 && p.words[wi][9] == ID_TDH && p.words[wi - 1][9] == ID_TDH && p.words[wi - 1][1] & 0x20 != 0)?;
            cs.stream.links[li].packets[pi].words[wi][9] = *t.pick(&[0xE9u8, 0x01, 0xF1, 0x29]);
            Some(Fault { name: "after_nodata_tdh:unknown_id".into(), codes: vec!["990"], loc: Loc::Word(li, pi, wi), active: ITS3.to_vec(), stateful: false, value_class: "id".into() })
        }
        // ------------------------------------------------------------------ state dependent ITS rules (running, stateful)
        33 => {
            // lane not active in the governing IHW
            let (li, pi, wi) = pick_word(t, cs, &|p, wi| kind_of_id(p.words[wi][9]) == WordKind::Data && p.words[0][9] == ID_IHW)?;
            let p = &mut cs.stream.links[li].packets[pi];
            let lane = lane_of_id(p.words[wi][9]);
            let ib = p.words[wi][9] >> 5 == 1;
            let mut m = u32::from_le_bytes([p.words[0][0], p.words[0][1], p.words[0][2], p.words[0][3]]);
            m &= !(1u32 << lane);
            p.words[0][0..4].copy_from_slice(&m.to_le_bytes());
            // the first word of that lane on the page is the reported one
            let first = (0..p.words.len()).find(|i| kind_of_id(p.words[*i][9]) == WordKind::Data && lane_of_id(p.words[*i][9]) == lane && (p.words[*i][9] >> 5 == 1) == ib).unwrap_or(wi);
            Some(Fault { name: "data:lane_not_active".into(), codes: vec![if ib { "72" } else { "71" }], loc: Loc::Word(li, pi, first), active: RUN_ITS.to_vec(), stateful: true, value_class: if ib { "IB" } else { "OB" }.into() })
        }
        34 => {
            // DDW0 on a page without stop bit
            let (li, pi) = pick_packet(t, cs, &|_l, pi, p: &Packet| pi >= 2 && p.rdh.stop_bit == 1 && p.words.len() == 1 && p.words[0][9] == ID_DDW0)?;
            cs.stream.links[li].packets[pi].rdh.stop_bit = 0;
            Some(Fault { name: "ddw0:stop_bit_0".into(), codes: vec!["110"], loc: Loc::Word(li, pi, 0), active: RUN_ITS.to_vec(), stateful: true, value_class: "stop=0".into() })
        }
        35 => {
            let (li, pi) = pick_packet(t, cs, &|_l, pi, p: &Packet| pi >= 2 && p.rdh.stop_bit == 1 && p.words.len() == 1 && p.words[0][9] == ID_DDW0)?;
            cs.stream.links[li].packets[pi].rdh.pages_counter = 0;
            Some(Fault { name: "ddw0:page_0".into(), codes: vec!["111"], loc: Loc::Word(li, pi, 0), active: RUN_ITS.to_vec(), stateful: true, value_class: "page=0".into() })
        }
        36 => {
            // IHW on a page with stop bit
            let (li, pi) = pick_packet(t, cs, &|_l, pi, p: &Packet| pi >= 2 && p.rdh.stop_bit == 0 && p.words.first().map(|w| w[9] == ID_IHW).unwrap_or(false) && !(p.words.len() > 1 && p.words[1][1] & 0x40 != 0))?;
            cs.stream.links[li].packets[pi].rdh.stop_bit = 1;
            Some(Fault { name: "ihw:stop_bit_1".into(), codes: vec!["12"], loc: Loc::Word(li, pi, 0), active: RUN_ITS.to_vec(), stateful: true, value_class: "stop=1".into() })
        }
        37 => {
            // non-continuation first TDH with the continuation bit set
            let (li, pi, wi) = pick_word(t, cs, &|p, wi| wi == 1 && p.words[1][9] == ID_TDH && p.words[1][1] & 0x40 == 0)?;
            cs.stream.links[li].packets[pi].words[wi][1] |= 0x40;
            Some(Fault { name: "tdh:continuation_unexpected".into(), codes: vec!["42"], loc: Loc::Word(li, pi, wi), active: RUN_ITS.to_vec(), stateful: true, value_class: "cont=1".into() })
        }
        38 => {
            // continuation TDH without the bit / with different bc, orbit, type
            let (li, pi, wi) = pick_word(t, cs, &|p, wi| wi == 1 && p.words[1][9] == ID_TDH && p.words[1][1] & 0x40 != 0)?;
            let w = &mut cs.stream.links[li].packets[pi].words[wi];
            let (code, vc) = match t.below(4) {
                0 => {
                    w[1] &= !0x40;
                    ("41", "cont=0")
                }
                1 => {
                    let bc = (u16::from_le_bytes([w[2], w[3]]) & 0xFFF) ^ 1;
                    w[2..4].copy_from_slice(&bc.to_le_bytes());
                    ("441", "bc")
                }
                2 => {
                    w[4] ^= 1;
                    ("442", "orbit")
                }
                _ => {
                    w[0] ^= 1;
                    if w[0] == 0 && w[1] & 0x1F == 0 {
                        w[0] = 2;
                    }
                    ("443", "type")
                }
            };
            Some(Fault { name: format!("tdh:continuation_{vc}"), codes: vec![code], loc: Loc::Word(li, pi, wi), active: RUN_ITS.to_vec(), stateful: true, value_class: vc.into() })
        }
        39 => {
            // first TDH of a page: orbit differs from the RDH
            let (li, pi, wi) = pick_word(t, cs, &|p, wi| wi == 1 && p.words[1][9] == ID_TDH && p.words[1][1] & 0x40 == 0)?;
            cs.stream.links[li].packets[pi].words[wi][5] ^= 0x01;
            Some(Fault { name: "tdh:orbit_vs_rdh".into(), codes: vec!["444"], loc: Loc::Word(li, pi, wi), active: RUN_ITS.to_vec(), stateful: true, value_class: "orbit".into() })
        }
        40 => {
            // page 0 first TDH: bc / trigger type differ from the RDH
            let (li, pi, wi) = pick_word(t, cs, &|p, wi| wi == 1 && p.rdh.pages_counter == 0 && p.words[1][9] == ID_TDH && p.words[1][1] & 0x40 == 0 && (p.words[1][1] & 0x10 != 0 || p.rdh.trigger_type & 0x10 != 0))?;
            let w = &mut cs.stream.links[li].packets[pi].words[wi];
            let (code, vc) = if t.chance(1, 2) {
                let bc = (u16::from_le_bytes([w[2], w[3]]) & 0xFFF) ^ 1;
                w[2..4].copy_from_slice(&bc.to_le_bytes());
                ("445", "bc")
            } else {
                w[0] ^= 0x40;
                if w[0] == 0 && w[1] & 0x1F == 0 {
                    w[0] = 0x80;
                }
                ("44", "type")
            };
            Some(Fault { name: format!("tdh:page0_{vc}_vs_rdh"), codes: vec![code], loc: Loc::Word(li, pi, wi), active: RUN_ITS.to_vec(), stateful: true, value_class: vc.into() })
        }
        41 => {
            // TDH after packet done: bunch crossing decreasing
            let (li, pi, wi) = pick_word(t, cs, &|p, wi| {
                wi >= 2 && p.words[wi][9] == ID_TDH && matches!(p.words[wi - 1][9], ID_TDT | ID_TDH) && (u16::from_le_bytes([p.words[wi][2], p.words[wi][3]]) & 0xFFF) > 0 && {
                    // the previous TDH in this packet must have bc > 0 after we zero ours
                    let prev = (0..wi).rev().find(|i| p.words[*i][9] == ID_TDH);
                    prev.map(|i| (u16::from_le_bytes([p.words[i][2], p.words[i][3]]) & 0xFFF) > 0).unwrap_or(false)
                }
            })?;
            let w = &mut cs.stream.links[li].packets[pi].words[wi];
            w[2] = 0;
            w[3] &= 0xF0;
            Some(Fault { name: "tdh:bc_decreasing".into(), codes: vec!["440"], loc: Loc::Word(li, pi, wi), active: RUN_ITS.to_vec(), stateful: true, value_class: "bc=0".into() })
        }
        42 => {
            // OB data word with connector input 7 (word level E73, running)
            let (li, pi, wi) = pick_word(t, cs, &|p, wi| p.words[wi][9] >> 5 == 2 && is_data_id(p.words[wi][9]))?;
            let w = &mut cs.stream.links[li].packets[pi].words[wi];
            w[9] |= 7;
            Some(Fault { name: "data:ob_input_7".into(), codes: vec!["73", "991", "70"], loc: Loc::Word(li, pi, wi), active: RUN_ITS.to_vec(), stateful: false, value_class: "input 7".into() })
        }
        43 => {
            // stave level: a frame loses all its data words (E701) - located at an admissible frame start
            let mut cands = vec![];
            for (li, m) in cs.metas.iter().enumerate() {
                for (fi, f) in m.frames.iter().enumerate() {
                    if f.pages == 1 {
                        cands.push((li, fi));
                    }
                }
            }
            if cands.is_empty() {
                return None;
            }
            let (li, fi) = cands[t.below(cands.len())];
            let f = cs.metas[li].frames[fi].clone();
            let (pi, _) = f.end;
            let start_w = f.start_candidates.last().unwrap().1;
            let p = &mut cs.stream.links[li].packets[pi];
            // remove data words between the frame's TDH and its TDT
            let end_w = f.end.1;
            let mut k = end_w;
            while k > start_w + 1 {
                k -= 1;
                if kind_of_id(p.words[k][9]) == WordKind::Data {
                    p.words.remove(k);
                    p.frame_of_word.remove(k);
                }
            }
            p.fix_sizes();
            let (sp, sw) = f.start_candidates[0];
            Some(Fault { name: "stave:frame_without_data".into(), codes: vec!["701"], loc: Loc::Word(li, sp, sw), active: vec![Mode::AllItsStave], stateful: true, value_class: "no data".into() })
        }
        44 => {
            // CDW whose user field differs from the previous CDW of the link while its index is not 0
            let mut cands = vec![];
            for (li, l) in cs.stream.links.iter().enumerate() {
                let mut seen_cdw = false;
                for (pi, p) in l.packets.iter().enumerate() {
                    for (wi, w) in p.words.iter().enumerate() {
                        if w[9] == ID_CDW {
                            if seen_cdw {
                                cands.push((li, pi, wi));
                            }
                            seen_cdw = true;
                        }
                    }
                }
            }
            if cands.is_empty() {
                return None;
            }
            let (li, pi, wi) = cands[t.below(cands.len())];
            let w = &mut cs.stream.links[li].packets[pi].words[wi];
            // the 48-bit user field changes in one bit (lowest, highest or any)
            let bit = match t.below(3) {
                0 => 0,
                1 => 47,
                _ => t.below(48),
            };
            w[bit / 8] ^= 1 << (bit % 8);
            if w[6] == 0 && w[7] == 0 && w[8] == 0 {
                w[6] = 1 + t.below(255) as u8; // index != 0
            }
            Some(Fault { name: "cdw:index_not_reset".into(), codes: vec!["81"], loc: Loc::Word(li, pi, wi), active: RUN_ITS.to_vec(), stateful: true, value_class: "index!=0".into() })
        }
        45 | 46 | 47 => {
            // stave level faults on a single-page frame of a link without earlier fatal lanes
            let mut cands = vec![];
            for (li, m) in cs.metas.iter().enumerate() {
                let mut fatal_seen = false;
                for (fi, f) in m.frames.iter().enumerate() {
                    if f.lanes.iter().any(|l| l.fatal_ape.is_some()) {
                        fatal_seen = true;
                        continue;
                    }
                    if f.pages == 1 && !fatal_seen && f.lanes.len() >= 2 {
                        cands.push((li, fi));
                    }
                }
            }
            if cands.is_empty() {
                return None;
            }
            let (li, fi) = cands[t.below(cands.len())];
            let f = cs.metas[li].frames[fi].clone();
            let pi = f.end.0;
            let start_w = f.start_candidates.last().unwrap().1;
            let end_w = f.end.1;
            let ib = cs.stream.links[li].barrel == Barrel::Inner;
            let (sp, sw) = f.start_candidates[0];
            let p = &mut cs.stream.links[li].packets[pi];
            match e {
                45 => {
                    // one lane loses all its data words: wrong number of lanes
                    let victim = f.lanes[t.below(f.lanes.len())].id;
                    let mut k = end_w;
                    while k > start_w + 1 {
                        k -= 1;
                        if p.words[k][9] == victim {
                            p.words.remove(k);
                            p.frame_of_word.remove(k);
                        }
                    }
                    p.fix_sizes();
                    Some(Fault { name: "stave:lane_missing".into(), codes: vec![if ib { "72" } else { "73" }], loc: Loc::Word(li, sp, sw), active: vec![Mode::AllItsStave], stateful: true, value_class: if ib { "IB" } else { "OB" }.into() })
                }
                46 => {
                    // the bunch counter of one chip differs: the byte after the first chip header / empty-frame word of a lane
                    let lane = f.lanes.iter().find(|l| l.pad_before == 0 && !l.chips.is_empty())?;
                    let first = (start_w + 1..end_w).find(|k| p.words[*k][9] == lane.id)?;
                    let b0 = p.words[first][0];
                    if b0 & 0xF0 != 0xA0 && b0 & 0xF0 != 0xE0 {
                        return None;
                    }
                    p.words[first][1] = p.words[first][1].wrapping_add(1 + t.below(200) as u8);
                    Some(Fault { name: "stave:chip_bunch_counter".into(), codes: vec![if ib { "74" } else { "75" }], loc: Loc::Word(li, sp, sw), active: vec![Mode::AllItsStave], stateful: true, value_class: if ib { "IB" } else { "OB" }.into() })
                }
                _ => {
                    // inner barrel: chip id differs from the lane number
                    if !ib {
                        return None;
                    }
                    let lane = f.lanes.iter().find(|l| l.pad_before == 0 && l.chips.len() == 1)?;
                    let first = (start_w + 1..end_w).find(|k| p.words[*k][9] == lane.id)?;
                    let b0 = p.words[first][0];
                    if b0 & 0xF0 != 0xA0 && b0 & 0xF0 != 0xE0 {
                        return None;
                    }
                    p.words[first][0] = (b0 & 0xF0) | ((b0 & 0x0F) + 1 + t.below(14) as u8) % 16;
                    Some(Fault { name: "stave:ib_chip_id".into(), codes: vec!["74"], loc: Loc::Word(li, sp, sw), active: vec![Mode::AllItsStave], stateful: true, value_class: "IB".into() })
                }
            }
        }
        // FEE ID changed inside an HBF (pages counter != 0): only the fiber-uplink bits 9:8, which every value of is legal,
        // so the sanity check stays silent and the link keeps its validator (stave mode dispatches by FEE ID: not active there)
        48 => rdh_fault!("running:fee_changed_in_hbf", |_l: usize, pi: usize, p: &Packet| pi >= 2 && p.rdh.pages_counter != 0, [Mode::All, Mode::AllIts], true, ["11"], "uplink bits 9:8", |r, t| { r.fee_id ^= 0x100 << t.below(2); }),
        _ => None,
    }
}

fn case(t0: &mut Tape, w: &Worker) -> CaseResult {
    let mut ot = t0.fork(140);
    let mut cs = gen::gen_conf_stream(t0, &ConfOpts { max_links: 4, max_hbfs: 3, big_16: 1, ..Default::default() });
    let e = ot.below(N_ENTRIES);
    let mut out = CaseOut::default();
    let pristine = cs.clone();
    let Some(fault) = apply_fault(e, &mut ot, &mut cs) else {
        out.labels.push(format!("not_applicable:entry{e}"));
        out.excluded.push(format!("entry {e} not applicable to the generated stream"));
        return Ok(out);
    };
    // the mutation must not change how the payload layout is recognised (format-2 payload whose bytes 10..15 are all zero)
    if cs.stream.links.iter().any(|l| l.packets.iter().any(|p| p.rdh.data_format() != 0 && p.words.len() >= 2 && p.words[1][0..6].iter().all(|b| *b == 0))) {
        out.labels.push("not_applicable:layout".into());
        return Ok(out);
    }
    // the same violation a second time elsewhere in the stream (rules that do not alter how the following words are read):
    // every occurrence must be reported, not only the first
    let mut second_loc: Option<Loc> = None;
    if !fault.stateful && (fault.name.starts_with("rdh:") || fault.name.contains(":reserved")) && ot.chance(1, 3) {
        let mut probe = cs.clone();
        if let Some(f2) = apply_fault(e, &mut ot, &mut probe) {
            let same = match (&f2.loc, &fault.loc) {
                (Loc::Rdh(a, b), Loc::Rdh(c, d)) => a == c && b == d,
                (Loc::Word(a, b, c), Loc::Word(d, e2, f)) => a == d && b == e2 && c == f,
                _ => false,
            };
            if !same && f2.name == fault.name {
                // where the two words were equal before, make the two faulty words byte-identical as well
                if let (Loc::Word(a, b, c), Loc::Word(d, e2, f)) = (&fault.loc, &f2.loc) {
                    if pristine.stream.links[*a].packets[*b].words[*c] == pristine.stream.links[*d].packets[*e2].words[*f] {
                        probe.stream.links[*d].packets[*e2].words[*f] = cs.stream.links[*a].packets[*b].words[*c];
                    }
                }
                cs = probe;
                second_loc = Some(f2.loc);
                out.labels.push("same_fault_twice".into());
            }
        }
    }
    let (bytes, lay) = cs.stream.encode();
    let expect_off2 = second_loc.as_ref().map(|l| match l {
        Loc::Rdh(li, pi) => lay.packets[cs.stream.global_index(&lay, *li, *pi)].offset,
        Loc::Word(li, pi, wi) => cs.stream.word_offset(&lay, cs.stream.global_index(&lay, *li, *pi), *wi),
    });
    let expect_off = match &fault.loc {
        Loc::Rdh(li, pi) => lay.packets[cs.stream.global_index(&lay, *li, *pi)].offset,
        Loc::Word(li, pi, wi) => cs.stream.word_offset(&lay, cs.stream.global_index(&lay, *li, *pi), *wi),
    };
    // E701 may be reported at any admissible frame start: collect them
    let mut accept_offs = vec![expect_off];
    if fault.name.starts_with("stave:") {
        if let Loc::Word(li, _, _) = &fault.loc {
            for f in &cs.metas[*li].frames {
                if f.start_candidates.iter().any(|(p, wd)| cs.stream.word_offset(&lay, cs.stream.global_index(&lay, *li, *p), *wd) == expect_off) {
                    for (p, wd) in &f.start_candidates {
                        accept_offs.push(cs.stream.word_offset(&lay, cs.stream.global_index(&lay, *li, *p), *wd));
                    }
                }
            }
        }
    }
    let n = 1 + ot.below(255);
    let mut case = CliCase::new(w, bytes.clone());
    for mode in ALL_MODES {
        let stdin = ot.chance(1, 2);
        let mut args = mode.args();
        args.push("-E".into());
        args.push(n.to_string());
        // a custom-checks file that configures what the data has anyway (the RDH version of the stream) changes nothing:
        // every documented rule must still be detected with it
        let (extra, _labels) = neutral_extras(&mut ot, w, &cs.stream, lay.packets.len());
        args.extend(extra);
        let (spec, o) = case.run(args, stdin);
        if let Some(f) = crash_check(&spec, &o, &bytes, &[0, 1, n as i32]) {
            return Err(f);
        }
        let msgs = cli::error_messages(&o.stderr);
        let fam = |m: &cli::ErrMsg| -> bool {
            if fault.codes == [""] {
                m.text.contains("Payload error following RDH")
            } else {
                m.codes.first().map(|c| fault.codes.contains(&c.as_str())).unwrap_or(false)
            }
        };
        let detail = |what: &str| {
            json!({"what": what, "entry": fault.name, "value_class": fault.value_class, "expected_codes": fault.codes, "expected_offset": format!("{expect_off:#X}"), "mode": mode.name(),
                   "messages": msgs.iter().take(8).map(|m| m.text.lines().next().unwrap_or("").to_string()).collect::<Vec<_>>(), "exit": o.code, "cmd": spec.describe(), "input": input_detail(&bytes)})
        };
        if fault.active.contains(&mode) {
            let hit = msgs.iter().any(|m| fam(m) && accept_offs.contains(&m.offset));
            if !hit {
                let elsewhere = msgs.iter().any(fam);
                return Err(Fail::new(
                    format!("C02:{}:{}:{}", if elsewhere { "wrong-location" } else { "not-detected" }, fault.name, mode.name()),
                    format!("{}: `{}` did not report E{:?} at {expect_off:#X}{}", mode.name(), fault.name, fault.codes, if elsewhere { " (the code is reported elsewhere only)" } else { "" }),
                    detail("missing detection"),
                ));
            }
            if let Some(o2) = expect_off2 {
                if !msgs.iter().any(|m| fam(m) && m.offset == o2) {
                    return Err(Fail::new(
                        format!("C02:second-occurrence-not-detected:{}:{}", fault.name, mode.name()),
                        format!("{}: `{}` occurs twice; the occurrence at {o2:#X} was not reported with E{:?} (the one at {expect_off:#X} was)", mode.name(), fault.name, fault.codes),
                        detail("second occurrence"),
                    ));
                }
            }
            if o.code != Some(n as i32) {
                return Err(Fail::new(format!("C02:exit-status:{}", mode.name()), format!("errors reported but exit status is {:?}, configured {n}", o.code), detail("exit status")));
            }
        } else if fault.stateful && !mode.running() {
            // a purely stateful violation is not reported by `check sanity`
            if msgs.iter().any(fam) {
                return Err(Fail::new(
                    format!("C02:stateful-rule-in-sanity:{}:{}", fault.name, mode.name()),
                    format!("{}: the running rule `{}` was reported by a sanity-only mode", mode.name(), fault.name),
                    detail("stateful in sanity"),
                ));
            }
            if !msgs.is_empty() || o.code != Some(0) {
                return Err(Fail::new(
                    format!("C02:sanity-not-silent:{}:{}", fault.name, mode.name()),
                    format!("{}: a stream that only breaks the running rule `{}` produced {} errors / exit {:?}", mode.name(), fault.name, msgs.len(), o.code),
                    detail("sanity not silent"),
                ));
            }
        }
        out.labels.push(format!("{}|{}", fault.name, mode.name()));
    }
    out.labels.push(format!("entry:{}", fault.name));
    out.labels.push(format!("value:{}:{}", fault.name, fault.value_class));
    let pos_class = match &fault.loc {
        Loc::Rdh(li, pi) | Loc::Word(li, pi, _) => {
            let n = cs.stream.links[*li].packets.len();
            if *pi == 0 { "first" } else if *pi + 1 == n { "last" } else { "middle" }
        }
    };
    out.labels.push(format!("position:{pos_class}"));
    out.nontrivial = true;
    out.fingerprint = fnv64(&bytes) ^ (e as u64) << 56;
    out.execs = case.execs;
    if w.take_sample() {
        out.sample = Some(json!({"entry": fault.name, "value_class": fault.value_class, "expected_codes": fault.codes, "offset": format!("{expect_off:#X}"), "active_modes": fault.active.iter().map(|m| m.name()).collect::<Vec<_>>(), "stream": stream_summary(&cs.stream, &bytes)}));
    }
    Ok(out)
}

pub fn build() -> Property {
    Property {
        id: "C02",
        rule: "Generated: (conforming G_conf stream, one of 48 fault-catalogue entries, position, boundary value). Catalogue = one or more mutations per rule of doc/checks_list.md and per error-code family of the README: \
               18 RDH sanity entries (header id, size, FEE layer 7 / stave 48..63 / each reserved bit, priority, reserved words, BC 0xDEC.., stop bit > 1, trigger 0 / each spare bit, detector bits 12..23, DW 2.., format 3.., system id), \
               4 RDH running entries (pages counter, trigger / orbit changed inside an HBF, same orbit after stop), padding > 15, identifier and reserved-bit rules of IHW/TDH/TDT/DDW0 (+ TDH without trigger, DDW0 index), unknown identifiers in the three choice states \
               with boundary ids, lane not active, OB input 7, DDW0 with stop 0 / page 0, IHW on a stop page, continuation bit wrong either way, continuation TDH differing in bc / orbit / type, TDH orbit / bc / type vs RDH, decreasing TDH bc, CDW index not reset, stave-level frame without data / lane missing / chip bunch counter / inner-barrel chip id. \
               Each mutation is made on the spec so that everything else stays conforming. For RDH sanity and reserved-bit entries a third of the cases apply the same violation a second time elsewhere (byte-identical where the words were equal): every occurrence must be reported. Executed on the real CLI in all five modes with -E n (a share of the runs with neutral options: -v 0/2/3, -d, -e 0, a custom-checks file whose keys are absent or agree with the data). Oracle: in every mode where the rule is documented as active an error of the family at the layout-map offset of the mutated RDH / word \
               and exit n; a purely stateful entry is not reported by `check sanity*`, which stay completely silent (exit 0). Follow-on errors elsewhere are allowed. Distinct = (entry, value class, position class, mode).",
        assumptions: vec![
            "RDH0 fields of the very first packet (documented pre-check), header-id change on a link's first packet and page-counter entries inside a link's first two packets are outside the domain".into(),
            "FEE-ID faults are not asserted in stave mode (a different FEE ID is a different stave there)".into(),
        ],
        phases: vec![Phase { name: "cli_fault_catalogue", kind: PhaseKind::Gen { cases: (8000, 60000), tape_len: 140 + 64 + 2000 + 4 * 4000 + 14000, f: Box::new(case) }, threads: 16 }],
    }
}
