//! C05 - results do not depend on thread scheduling

use super::common::*;
use crate::cli::{self, Input, RunSpec};
use crate::engine::*;
use crate::gen::{self, ConfOpts, MutOpts};
use crate::inproc::Mode;
use crate::model::*;
use crate::tape::{fnv64, Tape};
use serde_json::json;
use std::collections::{HashMap, HashSet};

/// corrupt so that several messages share an offset and there are > 20 errors on >= 2 links
pub fn gen_multi_error_stream(t0: &mut Tape, labels: &mut Vec<String>) -> (Vec<u8>, Stream) {
    let mut cs = gen::gen_conf_stream(
        t0,
        &ConfOpts {
            max_links: 8,
            min_links: 2,
            max_hbfs: 4,
            big_16: 2,
            ..Default::default()
        },
    );
    let mut mt = t0.fork(1200);
    // a fifth of the inputs hold an exact multiple of the reader's batch size (100 packets): the end of input then
    // coincides with a batch boundary
    if mt.chance(1, 5) {
        let target = if cs.stream.n_packets() <= 98 { 100 } else { 200 };
        if gen::pad_to_packet_count(&mut cs, target) {
            labels.push("packets:multiple_of_100".into());
        }
    }
    // a quarter of the inputs carry ONE FEE ID on all links (several links of one front-end, or a corrupted id):
    // outside stave mode the links are still validated by separate threads
    if mt.chance(1, 4) {
        let fee = cs.stream.links[0].packets[0].rdh.fee_id;
        for l in cs.stream.links.iter_mut() {
            for p in l.packets.iter_mut() {
                p.rdh.fee_id = fee;
            }
        }
        labels.push("same_fee_id_on_all_links".into());
    }
    // targeted same-offset errors on every link
    for l in cs.stream.links.iter_mut() {
        let np = l.packets.len();
        let n_bad = 3 + mt.below(10);
        for _ in 0..n_bad {
            let pi = 1 + mt.below(np.max(2) - 1);
            if pi >= np {
                continue;
            }
            let p = &mut l.packets[pi];
            match mt.below(4) {
                0 => {
                    // E10 + E11 at the RDH offset (running modes)
                    p.rdh.bc_word = 0xFFF;
                    p.rdh.pages_counter = p.rdh.pages_counter.wrapping_add(7);
                }
                1 => {
                    // unknown id in data state: E991 + E70 at the same word
                    if let Some(wi) = p.words.iter().position(|w| kind_of_id(w[9]) == WordKind::Data) {
                        p.words[wi][9] = 0x01;
                    }
                }
                2 => {
                    // TDH reserved bit + orbit mismatch: E40 + E444 (+E445)
                    if let Some(wi) = p.words.iter().position(|w| w[9] == ID_TDH) {
                        p.words[wi][8] = 0x01;
                        p.words[wi][4] ^= 0xFF;
                    }
                }
                _ => {
                    // TDT reserved bits
                    if let Some(wi) = p.words.iter().position(|w| w[9] == ID_TDT) {
                        p.words[wi][7] |= 0x1F;
                    }
                }
            }
        }
    }
    let n = mt.below(12);
    gen::mutate_stream(
        &mut mt,
        &mut cs.stream,
        &MutOpts {
            protect_first: true,
            keep_framing: true,
            keep_layout: true,
        },
        n,
        labels,
    );
    let (bytes, _lay) = cs.stream.encode();
    (bytes, cs.stream)
}

fn sched_env(t: &mut Tape, k: usize, trace: &std::path::Path) -> Vec<(String, String)> {
    let mut env = vec![("FASTPASTA_VERIF_TRACE".to_string(), trace.display().to_string())];
    let seed = t.u32();
    match k {
        0 => {}
        1 => env.push(("FASTPASTA_VERIF_SCHED".into(), format!("{seed},200,100,slow=Validator:150"))),
        2 => env.push(("FASTPASTA_VERIF_SCHED".into(), format!("{seed},200,100,slow=stats_thread:60"))),
        3 => env.push(("FASTPASTA_VERIF_SCHED".into(), format!("{seed},300,200,slow=Analysis:300"))),
        _ => {
            let p = 150 + t.below(700);
            let us = 20 + t.below(600);
            env.push(("FASTPASTA_VERIF_SCHED".into(), format!("{seed},{p},{us}")));
        }
    }
    env
}

#[derive(PartialEq, Eq, Debug, Clone)]
struct Observed {
    errors: Vec<String>,
    report: String,
    stats: Vec<u8>,
    code: Option<i32>,
}

fn cli_case(t0: &mut Tape, w: &Worker) -> CaseResult {
    let mut ot = t0.fork(200);
    let mut out = CaseOut::default();
    let conforming_control = ot.chance(1, 12);
    let (bytes, stream) = if conforming_control {
        out.labels.push("control:conforming".into());
        let cs = gen::gen_conf_stream(t0, &ConfOpts { max_links: 6, ..Default::default() });
        let (b, _) = cs.stream.encode();
        (b, cs.stream)
    } else {
        gen_multi_error_stream(t0, &mut out.labels)
    };
    // a sixth of the inputs end inside the payload of their last packet, whose RDH breaks a running rule as well: the
    // reader's message about the incomplete payload and the validator's message about that RDH come from different threads
    let mut bytes = bytes;
    if !conforming_control && ot.chance(1, 6) {
        let (walked, _) = walk(&bytes);
        if let Some(last) = walked.last() {
            if last.complete && last.payload_end - last.payload_start >= 16 && walked.len() >= 2 {
                let o = last.offset as usize;
                let mut r = Rdh::decode(&bytes[o..o + 64]);
                r.pages_counter = r.pages_counter.wrapping_add(5);
                bytes[o..o + 64].copy_from_slice(&r.encode());
                let cut = last.payload_start + (last.payload_end - last.payload_start) / 2;
                bytes.truncate(cut);
                out.labels.push("input_ends_inside_last_payload".into());
            }
        }
    }
    let mode = *ot.pick(&[Mode::All, Mode::AllIts, Mode::AllItsStave]);
    let mute = ot.chance(1, 3);
    let toml_fmt = ot.chance(1, 2);
    let e_code = 1 + ot.below(255);
    let k_runs = w.tier.pick(8, 40);
    // option interaction: a check together with a link filter and an output destination (the tool documents that the
    // output is ignored when a check is requested) must be as deterministic as the plain check
    let filter_and_output: Option<u8> = if !mode.stave() && ot.chance(1, 5) && !stream.links.is_empty() {
        let li = ot.below(stream.links.len());
        stream.links[li].packets.first().map(|p| p.rdh.link_id)
    } else {
        None
    };
    let mut case = CliCase::new(w, bytes.clone());
    let file = case.file();
    let mut first: Option<Observed> = None;
    let mut arrivals: HashSet<String> = HashSet::new();
    let mut n_errors = 0usize;
    for k in 0..k_runs {
        let sp = w.path(if toml_fmt { "st.toml" } else { "st.json" });
        let trace = w.path("trace");
        let mut args = vec![file.display().to_string()];
        args.extend(mode.args());
        if mute {
            args.push("-m".into());
        }
        args.push("-E".into());
        args.push(e_code.to_string());
        args.extend(stats_args(&sp, toml_fmt));
        if let Some(l) = filter_and_output {
            args.extend(["--filter-link".to_string(), l.to_string(), "-o".to_string(), w.path("ignored_output.raw").display().to_string()]);
        }
        let mut spec = RunSpec::new(args, Input::File(file.clone()));
        spec.env = sched_env(&mut ot, k, &trace);
        spec.timeout = std::time::Duration::from_secs(60);
        let o = case.run_spec(&spec);
        if o.timed_out {
            out.labels.push("inconclusive:timeout".into());
            continue;
        }
        if o.crash_signature().is_some() {
            out.labels.push(format!("skipped:crash:{}", o.crash_signature().unwrap()));
            break;
        }
        if cli::has_fatal(&o.stderr) {
            // fatal input errors are outside the statement
            out.labels.push("skipped:fatal".into());
            break;
        }
        if let Ok(tr) = std::fs::read_to_string(&trace) {
            for l in tr.lines() {
                arrivals.insert(l.to_string());
            }
        }
        let obs = Observed {
            errors: cli::parse_log(&o.stderr).into_iter().filter(|r| r.level == "ERROR").map(|r| r.text).collect(),
            report: cli::normalized_report(&o.stdout_str()),
            stats: std::fs::read(&sp).unwrap_or_default(),
            code: o.code,
        };
        n_errors = n_errors.max(obs.errors.len());
        match &first {
            None => first = Some(obs),
            Some(f) => {
                if *f != obs {
                    let what = if f.code != obs.code {
                        "exit-status"
                    } else if f.errors != obs.errors {
                        if mute { "stderr-errors(muted)" } else { "error-message-order-or-content" }
                    } else if f.stats != obs.stats {
                        if mute { "stats-file(muted)" } else { "stats-file" }
                    } else {
                        "report"
                    };
                    let diff_idx = f.errors.iter().zip(obs.errors.iter()).position(|(a, b)| a != b);
                    return Err(Fail::new(
                        format!("C05:schedule-dependent:{what}"),
                        format!("run {k} differs from run 0 in {what} ({} for {})", mode.name(), if mute { "muted" } else { "unmuted" }),
                        json!({"mode": mode.name(), "mute": mute, "toml": toml_fmt, "run": k, "env": spec.env,
                               "first_diff_index": diff_idx,
                               "run0_msg": diff_idx.and_then(|i| f.errors.get(i)).map(|s| s.lines().next().unwrap_or("").to_string()),
                               "runk_msg": diff_idx.and_then(|i| obs.errors.get(i)).map(|s| s.lines().next().unwrap_or("").to_string()),
                               "n_errors": [f.errors.len(), obs.errors.len()], "codes": [f.code, obs.code],
                               "stats_equal": f.stats == obs.stats, "report_equal": f.report == obs.report,
                               "input": input_detail(&bytes)}),
                    ));
                }
            }
        }
    }
    // same-offset groups in the statistics file of run 0
    let mut same_offset = false;
    let mut total_errs = 0usize;
    if let Some(f) = &first {
        if let Some(st) = cli::parse_stats(&String::from_utf8_lossy(&f.stats), toml_fmt) {
            let mut per: HashMap<u64, usize> = HashMap::new();
            if let Some(a) = st["error_stats"]["reported_errors"].as_array() {
                total_errs = a.len();
                for e in a {
                    if let Some(m) = e.as_str().and_then(cli::parse_err_msg) {
                        *per.entry(m.offset).or_default() += 1;
                    }
                }
            }
            same_offset = per.values().any(|c| *c > 1);
        }
    }
    out.labels.push(format!("mode:{}", mode.name()));
    if filter_and_output.is_some() {
        out.labels.push("check+filter+output".into());
    }
    out.labels.push(if mute { "muted".into() } else { "unmuted".into() });
    out.labels.push(if toml_fmt { "stats:toml".into() } else { "stats:json".into() });
    out.labels.push(format!("arrival_orders:{}", arrivals.len().min(5)));
    if total_errs > 20 {
        out.labels.push("errors>20".into());
    }
    if same_offset {
        out.labels.push("same_offset_group".into());
    }
    out.labels.push(format!("links:{}", stream.links.len().min(4)));
    out.nontrivial = arrivals.len() >= 2 && same_offset && total_errs > 20;
    out.fingerprint = fnv64(&bytes) ^ fnv64(format!("{}{mute}{toml_fmt}", mode.name()).as_bytes());
    out.execs = case.execs;
    if w.take_sample() {
        out.sample = Some(json!({"mode": mode.name(), "mute": mute, "runs": k_runs, "distinct_arrival_orders": arrivals.len(), "errors": total_errs,
                                 "links": stream.links.len(), "bytes": bytes.len()}));
    }
    Ok(out)
}

/// views: the same view output under every schedule (no fatal error in the input)
fn view_case(t0: &mut Tape, w: &Worker) -> CaseResult {
    let mut ot = t0.fork(64);
    let mut out = CaseOut::default();
    let cs = gen::gen_conf_stream(t0, &ConfOpts { max_links: 6, min_links: 2, big_16: 3, ..Default::default() });
    let (bytes, _lay) = cs.stream.encode();
    let view: Vec<String> = match ot.below(3) {
        0 => vec!["view".into(), "rdh".into()],
        1 => vec!["view".into(), "its-readout-frames".into()],
        _ => vec!["view".into(), "its-readout-frames-data".into()],
    };
    let styled = ot.chance(1, 2);
    let stdin = ot.chance(1, 2);
    let k_runs = w.tier.pick(5, 16);
    let mut first: Option<(Vec<u8>, Option<i32>)> = None;
    let mut execs = 0;
    for k in 0..k_runs {
        let mut args = view.clone();
        if !styled {
            args.push("-d".into());
        }
        let data = std::sync::Arc::new(bytes.clone());
        let input = if stdin {
            Input::Pipe(data, 4096)
        } else {
            let p = w.write("in.raw", &bytes);
            args.insert(0, p.display().to_string());
            Input::File(p)
        };
        let mut spec = RunSpec::new(args, input);
        let trace = w.path("trace");
        spec.env = sched_env(&mut ot, k, &trace);
        spec.timeout = std::time::Duration::from_secs(60);
        let o = cli::run(&w.cli, &spec);
        execs += 1;
        if o.timed_out || o.crash_signature().is_some() || cli::has_fatal(&o.stderr) {
            out.labels.push("skipped:crash_timeout_or_fatal".into());
            return Ok(out);
        }
        match &first {
            None => first = Some((o.stdout.clone(), o.code)),
            Some((so, code)) => {
                if *so != o.stdout || *code != o.code {
                    return Err(Fail::new(
                        format!("C05:schedule-dependent:view-output:{}", view[1]),
                        format!("run {k} of `{}` prints different output than run 0 ({} vs {} bytes)", view.join(" "), o.stdout.len(), so.len()),
                        json!({"view": view, "styled": styled, "stdin": stdin, "env": spec.env, "input": input_detail(&bytes)}),
                    ));
                }
            }
        }
    }
    out.labels.push(format!("view:{}", view[1]));
    out.labels.push(if stdin { "src:pipe(4 KiB chunks)".into() } else { "src:file".into() });
    out.nontrivial = cs.stream.links.len() >= 2;
    out.fingerprint = fnv64(&bytes) ^ fnv64(view[1].as_bytes());
    out.execs = execs;
    if w.take_sample() {
        out.sample = Some(json!({"view": view, "runs": k_runs, "bytes": bytes.len(), "links": cs.stream.links.len()}));
    }
    Ok(out)
}

/// More error messages than fit a 16-bit counter, sent by several validator threads at once: the stored messages,
/// the statistics file and the exit status must still be the same in every run (no error cap is set).
fn many_errors_case(i: u64, w: &Worker) -> CaseResult {
    let n_links = 2 + (i % 2) as usize;
    let per_link = 70_000 / (2 * n_links) + 1 + (i as usize % 7) * 13;
    let mut links: Vec<Link> = vec![];
    for l in 0..n_links {
        let mut packets = vec![];
        for _ in 0..per_link {
            // every RDH is its own heartbeat frame (page 0, stop bit 1) with the orbit of its predecessor (E11)
            // and a reserved RDH2 bit (E10): two messages at the same offset
            let r = Rdh { link_id: l as u8, fee_id: fee_id(0, l as u8 % 4, 3), pages_counter: 0, stop_bit: 1, orbit: 77, rdh2_reserved: 1, ..Rdh::default() };
            let mut p = Packet::new(r);
            p.fix_sizes();
            packets.push(p);
        }
        links.push(Link { packets, barrel: Barrel::Inner, lane_ids: vec![] });
    }
    let lens: Vec<usize> = links.iter().map(|l| l.packets.len()).collect();
    let stream = Stream { links, order: order_round_robin(&lens) };
    let (bytes, _) = stream.encode();
    let mode = if i % 4 < 2 { Mode::All } else { Mode::AllIts };
    let toml_fmt = i % 3 == 0;
    let mut case = CliCase::new(w, bytes.clone());
    let file = case.file();
    let mut first: Option<(Vec<u8>, Option<i32>, String)> = None;
    let mut total = 0u64;
    let k_runs = w.tier.pick(4, 10);
    for k in 0..k_runs {
        let sp = w.path(if toml_fmt { "many.toml" } else { "many.json" });
        let mut args = vec![file.display().to_string()];
        args.extend(mode.args());
        args.extend(["-m".to_string(), "-E".to_string(), "9".to_string()]);
        args.extend(stats_args(&sp, toml_fmt));
        let mut spec = RunSpec::new(args, Input::File(file.clone()));
        spec.env = match k {
            0 => vec![],
            1 => vec![("FASTPASTA_VERIF_SCHED".into(), format!("{},50,20", 1000 + i))],
            2 => vec![("FASTPASTA_VERIF_SCHED".into(), format!("{},20,10,slow=Validator:3", 2000 + i))],
            _ => vec![("FASTPASTA_VERIF_SCHED".into(), format!("{},100,30", 3000 + i + k as u64))],
        };
        spec.timeout = std::time::Duration::from_secs(180);
        let o = case.run_spec(&spec);
        if o.timed_out {
            let mut out = CaseOut::default();
            out.labels.push("inconclusive:timeout".into());
            return Ok(out);
        }
        if let Some(sig) = o.crash_signature() {
            return Err(Fail::new(format!("C05:many-errors:crash:{sig}"), "crash with more than 65535 errors", json!({"cmd": spec.describe(), "out": o.brief()})));
        }
        let stats = std::fs::read(&sp).unwrap_or_default();
        if let Some(st) = cli::parse_stats(&String::from_utf8_lossy(&stats), toml_fmt) {
            total = st["error_stats"]["total_errors"].as_u64().unwrap_or(0);
            let listed = st["error_stats"]["reported_errors"].as_array().map(|a| a.len() as u64).unwrap_or(0);
            if listed != total {
                return Err(Fail::new("C05:many-errors:listed-vs-total", format!("{listed} messages stored, total_errors says {total}"), json!({"cmd": spec.describe(), "run": k})));
            }
        }
        let obs = (stats, o.code, cli::normalized_report(&o.stdout_str()));
        match &first {
            None => first = Some(obs),
            Some(f) => {
                if *f != obs {
                    let what = if f.1 != obs.1 { "exit-status" } else if f.0 != obs.0 { "stats-file" } else { "report" };
                    return Err(Fail::new(
                        format!("C05:schedule-dependent:many-errors:{what}"),
                        format!("run {k} differs from run 0 in {what} with {total} errors from {n_links} links ({})", mode.name()),
                        json!({"mode": mode.name(), "run": k, "env": spec.env, "links": n_links, "packets_per_link": per_link, "stats_sizes": [f.0.len(), obs.0.len()], "codes": [f.1, obs.1]}),
                    ));
                }
            }
        }
    }
    let mut out = CaseOut::default();
    out.nontrivial = total > 65_535;
    out.fingerprint = fnv64(&bytes) ^ i;
    out.execs = case.execs;
    out.labels.push(format!("many_errors:links:{n_links}"));
    if total > 65_535 {
        out.labels.push("errors>65535".into());
    }
    if w.take_sample() {
        out.sample = Some(json!({"kind": "many_errors", "links": n_links, "packets_per_link": per_link, "total_errors": total, "runs": k_runs, "mode": mode.name()}));
    }
    Ok(out)
}

pub fn build() -> Property {
    Property {
        id: "C05",
        rule: "Multi-link (1..8 links, interleaved) G_conf streams corrupted so that several messages share an offset (E10+E11, E991+E70, E40+E444, E50) on every link, plus G_mut edits and a conforming control; a fifth padded to exactly 100 / 200 packets; a sixth cut off inside the payload of the last packet whose RDH also breaks a running rule; \
               modes {check all, check all its, check all its-stave} x mute x {JSON, TOML} (a fifth of the non-stave cases additionally with --filter-link <present link> -o <file>, an output the tool documents as ignored next to a check). Each case is executed K times (quick 8, thorough 40) on the hook-enabled CLI under different \
               FASTPASTA_VERIF_SCHED settings (unperturbed, slow validators, slow collector, slow dispatcher, random yields/sleeps at every channel hand-off). Oracle: all K runs give the same ERROR records in the \
               same order, the same report (minus `Processed in`), a byte-identical statistics file and the same exit status. Non-trivial = the K runs produced >= 2 distinct pre-sort arrival orders \
               (measured through the trace hook) AND the input has a same-offset group AND more than 20 errors; distinct by input hash x configuration. Phase many_errors: 2..3 links of RDH-only packets that give two messages each, more than 65535 messages in total (beyond any 16-bit bound), 4 (10) runs under light perturbation: byte-identical statistics file, same report and exit status, every counted message stored.",
        assumptions: vec![
            "schedules are sampled by seeded perturbation at the channel hand-offs, not enumerated (DESIGN.md section 7)".into(),
            "WARN records are printed live by worker threads and are not part of the comparison".into(),
            "no error cap and no fatal input error (the statement's own proviso)".into(),
        ],
        phases: vec![
            Phase { name: "many_errors", kind: PhaseKind::Enum { n: (2, 8), exhaustive: (false, false), f: Box::new(many_errors_case) }, threads: 2 },
            Phase {
                name: "view_schedules",
                kind: PhaseKind::Gen { cases: (240, 1200), tape_len: 64 + 64 + 2000 + 6 * 4000 + 14000, f: Box::new(view_case) },
                threads: 8,
            },
            Phase {
            name: "cli_schedules",
            kind: PhaseKind::Gen {
                cases: (480, 2000),
                tape_len: 200 + 64 + 2000 + 8 * 4000 + 14000 + 1200,
                f: Box::new(cli_case),
            },
            threads: 8,
        }],
    }
}
