//! C19 - views show exactly what is in the data

use super::common::*;
use crate::cli;
use crate::engine::*;
use crate::gen::{self, ConfOpts, FrameOpts};
use crate::model::*;
use crate::tape::{fnv64, Tape};
use serde_json::json;

fn nows(s: &str) -> String {
    s.chars().filter(|c| !c.is_whitespace()).collect()
}

fn rdh_trigger_kind(t: u32) -> &'static str {
    if t & 0x200 != 0 {
        "SOC"
    } else if t & 0x80 != 0 {
        "SOT"
    } else if t & 0x2 != 0 {
        "HB"
    } else if t & 0x10 != 0 {
        "PhT"
    } else {
        "Other"
    }
}

fn det_lane_status(d: u32) -> &'static str {
    if d & 8 != 0 {
        "Fatal"
    } else if d & 4 != 0 {
        "Error"
    } else if d & 2 != 0 {
        "Warning"
    } else if d & 1 != 0 {
        "Missing"
    } else {
        "-"
    }
}

fn lane_status_56(w: &[u8]) -> &'static str {
    let b = &w[..7];
    if b.iter().any(|x| (0..4).any(|i| (x >> (2 * i)) & 3 == 3)) {
        "Fatal"
    } else if b.iter().any(|x| x & 0xAA != 0) {
        "Error"
    } else if b.iter().any(|x| x & 0x55 != 0) {
        "Warning"
    } else {
        "-"
    }
}

fn dump(w: &[u8]) -> String {
    format!("[{}]", word_hex(w))
}

/// expected whitespace-free rows of an ITS view for one packet (independent decode)
fn expected_its_rows(off: u64, r: &Rdh, words: &[(u64, Word)], data_view: bool) -> (Vec<String>, Vec<String>) {
    let mut rows = vec![];
    let mut unknown = vec![];
    rows.push(nows(&format!(
        "{off:X}: RDH v{} stop={} stave: L{}_{} {} #{} {} {}_{}",
        r.version,
        r.stop_bit,
        r.layer(),
        r.stave(),
        rdh_trigger_kind(r.trigger_type),
        r.link_id,
        det_lane_status(r.detector_field),
        r.orbit,
        r.bc()
    )));
    for (wo, w) in words {
        let d = dump(w);
        match kind_of_id(w[9]) {
            WordKind::Ihw => rows.push(nows(&format!("{wo:X}: IHW {d}"))),
            WordKind::Tdh => {
                let f = tdh_fields(w);
                let trig = if w[1] & 0x02 != 0 {
                    "SOC"
                } else if f.internal {
                    "Internal"
                } else if w[0] & 0x10 != 0 {
                    "PhT"
                } else {
                    "Other"
                };
                rows.push(nows(&format!("{wo:X}: TDH {d} {trig} {} {} {}_{}", if f.continuation { "Cont." } else { "" }, if f.no_data { "No data" } else { "Data!" }, f.orbit, f.bc)));
            }
            WordKind::Tdt => rows.push(nows(&format!("{wo:X}: TDT {d} {} {}", if w[8] & 1 != 0 { "Complete" } else { "Split" }, lane_status_56(w)))),
            WordKind::Ddw0 => rows.push(nows(&format!("{wo:X}: DDW {d} {}", lane_status_56(w)))),
            WordKind::Cdw => rows.push(nows(&format!("{wo:X}: CDW {d}"))),
            WordKind::Data => {
                if data_view {
                    rows.push(nows(&format!("{wo:X}: DATA {d}")));
                }
            }
            WordKind::Other => unknown.push(nows(&format!("{wo:X}: Unknown ITS Payload Word ID: {:#02X} found in: {d}", w[9]))),
        }
    }
    (rows, unknown)
}

/// rows of a view = lines that start with a hex offset and a colon
fn view_rows(stdout: &str) -> Vec<String> {
    cli::strip_ansi(stdout)
        .lines()
        .filter(|l| {
            let t = l.trim_start();
            t.split_once(':').map(|(a, _)| !a.is_empty() && a.chars().all(|c| c.is_ascii_hexdigit())).unwrap_or(false)
        })
        .map(nows)
        .collect()
}

fn all_lines_nows(stdout: &str) -> Vec<String> {
    cli::strip_ansi(stdout).lines().map(nows).filter(|l| !l.is_empty()).collect()
}

fn case(t0: &mut Tape, w: &Worker) -> CaseResult {
    let mut ot = t0.fork(32);
    let mut out = CaseOut::default();
    let conf = ot.chance(1, 3);
    let stream = if conf {
        out.labels.push("input:G_conf".into());
        gen::gen_conf_stream(t0, &ConfOpts { max_links: 4, big_16: 1, ..Default::default() }).stream
    } else {
        out.labels.push("input:G_frame_words".into());
        gen::gen_frame_stream(t0, &FrameOpts { max_packets: 120, word_payload: true, its_first: true, ..Default::default() }).0
    };
    let (bytes, lay) = stream.encode();
    let rdhs = rdhs_of(&stream, &lay);
    let view = ot.below(3);
    let filter = gen::gen_filter(&mut ot, &rdhs, true);
    let stdin = ot.chance(1, 2);
    let view_args: Vec<String> = match view {
        0 => vec!["view".into(), "rdh".into()],
        1 => vec!["view".into(), "its-readout-frames".into()],
        _ => vec!["view".into(), "its-readout-frames-data".into()],
    };
    // by design processing stops when the first analysed packet has an unknown system id
    if let Some(f) = rdhs.iter().find(|r| filter.matches(r)) {
        if !KNOWN_SYSTEM_IDS.contains(&f.system_id) {
            out.labels.push("skipped:unknown_system_first_analysed".into());
            return Ok(out);
        }
    }
    let mut case = CliCase::new(w, bytes.clone());
    let mut a_plain = view_args.clone();
    a_plain.push("-d".into());
    a_plain.extend(filter.args());
    let (spec_p, o_plain) = case.run(a_plain, stdin);
    let mut a_styled = view_args.clone();
    a_styled.extend(filter.args());
    let (spec_s, o_styled) = case.run(a_styled, stdin);
    for (s, o) in [(&spec_p, &o_plain), (&spec_s, &o_styled)] {
        if let Some(f) = crash_check(s, o, &bytes, &[0, 1]) {
            return Err(f);
        }
    }
    if cli::has_fatal(&o_plain.stderr) || cli::has_fatal(&o_styled.stderr) {
        out.labels.push("skipped:fatal".into());
        return Ok(out);
    }
    // ---- expected rows from an independent decode
    let mut expected: Vec<String> = vec![];
    let mut expected_unknown: Vec<String> = vec![];
    let mut kinds = std::collections::BTreeSet::new();
    for (i, pa) in lay.packets.iter().enumerate() {
        let p = stream.packet(&lay, i);
        if !filter.matches(&p.rdh) {
            continue;
        }
        if view == 0 {
            expected.push(nows(&format!("{:X}:{}", pa.offset, p.rdh.view_tokens().concat())));
        } else {
            let words: Vec<(u64, Word)> = p.words.iter().enumerate().map(|(wi, wd)| (stream.word_offset(&lay, i, wi), *wd)).collect();
            for (_, wd) in &words {
                kinds.insert(format!("{:?}", kind_of_id(wd[9])));
            }
            let (r, u) = expected_its_rows(pa.offset, &p.rdh, &words, view == 2);
            expected.extend(r);
            expected_unknown.extend(u);
        }
    }
    let got = view_rows(&o_plain.stdout_str());
    let detail = |what: &str, i: usize, g: Option<&String>, e: Option<&String>| {
        json!({"what": what, "row": i, "shown": g, "expected": e, "view": view_args, "filter": format!("{filter:?}"), "cmd": spec_p.describe(), "input": input_detail(&bytes)})
    };
    if got != expected {
        let i = got.iter().zip(expected.iter()).position(|(a, b)| a != b).unwrap_or(got.len().min(expected.len()));
        let kind = if got.len() != expected.len() && got.iter().zip(expected.iter()).all(|(a, b)| a == b) {
            "row-count".to_string()
        } else {
            let e = expected.get(i).cloned().unwrap_or_default();
            let word = ["RDH", "IHW", "TDH", "TDT", "DDW", "CDW", "DATA"].iter().find(|k| e.contains(&format!(":{k}"))).copied().unwrap_or("row");
            format!("{word}-row")
        };
        return Err(Fail::new(
            format!("C19:{}:{kind}", view_args[1]),
            format!("{}: row {i} differs from the independent decode ({} rows shown, {} expected)", view_args[1], got.len(), expected.len()),
            detail("row mismatch", i, got.get(i), expected.get(i)),
        ));
    }
    if view != 0 {
        let got_unknown: Vec<String> = cli::parse_log(&o_plain.stderr).into_iter().filter(|r| r.level == "ERROR" && r.text.contains("Unknown ITS Payload Word ID")).map(|r| nows(&r.text)).collect();
        if got_unknown != expected_unknown {
            let i = got_unknown.iter().zip(expected_unknown.iter()).position(|(a, b)| a != b).unwrap_or(got_unknown.len().min(expected_unknown.len()));
            return Err(Fail::new(
                format!("C19:{}:unknown-id-rows", view_args[1]),
                format!("words with an unrecognised identifier: {} reported, {} expected", got_unknown.len(), expected_unknown.len()),
                detail("unknown id rows", i, got_unknown.get(i), expected_unknown.get(i)),
            ));
        }
    }
    // ---- styled and unstyled output carry the same content
    let a = all_lines_nows(&o_plain.stdout_str());
    let b = all_lines_nows(&o_styled.stdout_str());
    if a != b {
        let i = a.iter().zip(b.iter()).position(|(x, y)| x != y).unwrap_or(a.len().min(b.len()));
        return Err(Fail::new(
            format!("C19:{}:styled-differs-from-unstyled", view_args[1]),
            format!("styled and unstyled output differ at line {i}"),
            json!({"unstyled": a.get(i), "styled": b.get(i), "cmd_unstyled": spec_p.describe(), "cmd_styled": spec_s.describe(), "input": input_detail(&bytes)}),
        ));
    }
    out.labels.push(format!("view:{}", view_args[1]));
    out.labels.push(filter.label().into());
    for k in &kinds {
        out.labels.push(format!("word_kind:{k}"));
    }
    out.nontrivial = view == 0 && lay.packets.len() >= 3 || kinds.len() >= 4;
    out.fingerprint = fnv64(&bytes) ^ fnv64(format!("{view}{filter:?}").as_bytes());
    out.execs = case.execs;
    if w.take_sample() {
        out.sample = Some(json!({"view": view_args[1], "filter": format!("{filter:?}"), "rows": got.len(), "first_rows": got.iter().take(4).collect::<Vec<_>>()}));
    }
    Ok(out)
}

pub fn build() -> Property {
    Property {
        id: "C19",
        rule: "G_frame streams with word-structured ITS payloads in both data formats (all word types incl. unrecognised ids, all flag combinations of TDH / TDT / DDW0, arbitrary detector-field status bits, layers 0..7) and G_conf streams \
               x {view rdh, view its-readout-frames, view its-readout-frames-data} x {styled, -d} x filter {none, link, FEE, stave} x {file, pipe}. Oracle: the rows are parsed back and compared (whitespace-insensitively) with an independent decode of the bytes at the \
               row's offset: view rdh = one row per visited RDH with 14 fields; ITS views = one RDH row (version, stop, stave, trigger kind SOC > SOT > HB > PhT, link, lane status Fatal > Error > Warning > Missing, orbit_BC) and one row per IHW / TDH / TDT / DDW / CDW \
               (+ DATA in the data view) with offset, the ten bytes and attributes (TDH trigger kind SOC > internal > PhT > other, Cont., No data / Data!, orbit_BC; TDT Complete / Split and worst lane status; DDW worst lane status); words with unrecognised ids are reported on stderr. \
               Styled output with ANSI sequences removed equals the -d output line by line. Non-trivial = >= 4 word kinds shown (>= 3 RDH rows for view rdh).",
        assumptions: vec!["whitespace-insensitive comparison (columns may overflow their width)".into(), "runs that end with a FATAL message (unknown system id of the first analysed packet) are excluded".into()],
        phases: vec![Phase { name: "cli_views", kind: PhaseKind::Gen { cases: (6000, 40000), tape_len: 32 + 64 + 2000 + 4 * 4000 + 14000, f: Box::new(case) }, threads: 16 }],
    }
}
