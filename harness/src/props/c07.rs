//! C07 - reported offsets and quoted bytes are truthful

use super::common::*;
use crate::cli::{self, ErrMsg};
use crate::engine::*;
use crate::gen::{self, ConfOpts, FrameOpts, MutOpts};
use crate::inproc::ALL_MODES;
use crate::model::*;
use crate::tape::{fnv64, Tape};
use regex::Regex;
use serde_json::json;
use std::collections::{HashMap, HashSet};
use std::sync::OnceLock;

pub use crate::truth::*;

fn gen_input(t0: &mut Tape, labels: &mut Vec<String>) -> (Vec<u8>, Vec<Rdh>) {
    let mut g = t0.fork(8);
    if g.chance(1, 2) {
        labels.push("input:G_frame_words".into());
        let (s, l) = gen::gen_frame_stream(
            t0,
            &FrameOpts {
                max_packets: 110,
                word_payload: true,
                its_first: g.chance(3, 4),
                ..Default::default()
            },
        );
        labels.extend(l);
        let (bytes, lay) = s.encode();
        (bytes, rdhs_of(&s, &lay))
    } else {
        labels.push("input:G_mut_conf".into());
        let mut cs = gen::gen_conf_stream(
            t0,
            &ConfOpts {
                max_links: 5,
                max_hbfs: 3,
                big_16: 1,
                ..Default::default()
            },
        );
        let mut mt = t0.fork(300);
        let n = 1 + mt.below(8);
        gen::mutate_stream(
            &mut mt,
            &mut cs.stream,
            &MutOpts {
                protect_first: true,
                keep_framing: true,
                keep_layout: true,
            },
            n,
            labels,
        );
        // a quarter of these inputs: some frames lose all their data words (the stave-level checks then describe the empty
        // frame and quote its closing TDT)
        if g.chance(1, 4) {
            let mut emptied = 0;
            for link in cs.stream.links.iter_mut() {
                for p in link.packets.iter_mut() {
                    let Some(i) = p.words.iter().position(|w| w[9] == ID_TDH && w[1] & 0x60 == 0) else { continue };
                    let Some(len) = p.words[i + 1..].iter().position(|w| !is_data_id(w[9])) else { continue };
                    if len == 0 || p.words[i + 1 + len][9] != ID_TDT || !mt.chance(1, 3) {
                        continue;
                    }
                    p.words.drain(i + 1..i + 1 + len);
                    if p.frame_of_word.len() >= i + 1 + len {
                        p.frame_of_word.drain(i + 1..i + 1 + len);
                    }
                    p.fix_sizes();
                    emptied += 1;
                }
            }
            gen::sanitize_layout(&mut cs.stream);
            if emptied > 0 {
                labels.push("mut:frames_emptied".into());
            }
        }
        let (bytes, lay) = cs.stream.encode();
        (bytes, rdhs_of(&cs.stream, &lay))
    }
}

fn cli_case(t0: &mut Tape, w: &Worker) -> CaseResult {
    let mut ot = t0.fork(32);
    let mut out = CaseOut::default();
    let (bytes, rdhs) = gen_input(t0, &mut out.labels);
    let tr = truth_of(&bytes);
    let mut case = CliCase::new(w, bytes.clone());
    let mut kinds: HashSet<&'static str> = HashSet::new();
    let mut under_filter_msgs = 0;
    for _ in 0..2 {
        let mode = *ot.pick(&ALL_MODES);
        let filter = gen::gen_filter(&mut ot, &rdhs, true);
        let mute = ot.chance(1, 3);
        let stdin = ot.chance(1, 2);
        let mut args = mode.args();
        args.extend(filter.args());
        if mute {
            args.push("-m".into());
        }
        let sp = w.path("st.json");
        args.extend(stats_args(&sp, false));
        let (spec, o) = case.run(args, stdin);
        if o.timed_out || o.crash_signature().is_some() {
            // crashes are C04's business; do not double report here
            out.labels.push(format!("skipped:crash_or_timeout:{}", o.crash_signature().unwrap_or_else(|| "timeout".into())));
            continue;
        }
        let mut msgs: Vec<ErrMsg> = cli::error_messages(&o.stderr);
        if let Some(st) = read_stats(&sp, false) {
            if let Some(a) = st["error_stats"]["reported_errors"].as_array() {
                for e in a {
                    if let Some(m) = e.as_str().and_then(cli::parse_err_msg) {
                        msgs.push(m);
                    }
                }
            }
        }
        for m in &msgs {
            match check_message(m, &bytes, &tr) {
                Ok(k) => {
                    kinds.insert(k);
                }
                Err((sig, why)) => {
                    return Err(Fail::new(
                        sig,
                        why,
                        json!({"message": m.text, "mode": mode.name(), "filter": format!("{filter:?}"), "cmd": spec.describe(), "input": input_detail(&bytes)}),
                    ));
                }
            }
        }
        if filter != Filter::None && !msgs.is_empty() && rdhs.iter().any(|r| !filter.matches(r)) {
            under_filter_msgs += 1;
        }
        out.labels.push(format!("mode:{}", mode.name()));
        out.labels.push(filter.label().into());
        if w.take_sample() {
            out.sample = Some(json!({"cmd": spec.describe(), "messages": msgs.len(), "first_message": msgs.first().map(|m| m.text.lines().next().unwrap_or("").to_string())}));
        }
    }
    for k in &kinds {
        out.labels.push(format!("msg_kind:{k}"));
    }
    out.nontrivial = (kinds.contains("word") && kinds.contains("rdh")) || under_filter_msgs > 0;
    out.fingerprint = fnv64(&bytes) ^ fnv64(out.labels.join(",").as_bytes());
    out.execs = case.execs;
    out.labels.sort();
    out.labels.dedup();
    Ok(out)
}

pub fn build() -> Property {
    Property {
        id: "C07",
        rule: "Inputs: G_frame streams with word-structured payloads laid out as the header's data format says (all word classes incl. invalid ids, random bits; colliding link/FEE populations) \
               and G_mut corruptions of multi-link G_conf streams that keep framing and layout; x five check modes x filter {none, link, FEE, stave} x mute x file/stdin. \
               Every error message (stderr and statistics file) is judged by a round trip against the input: offset inside the input; RDH-level messages (E10/E11/padding) at an RDH start of the chain \
               with a `current :` row equal to an independent decode; word-level messages at a word start with the quoted 10 bytes equal to the input bytes; frame-level messages at a word start with \
               `ending at` on a TDT. Non-trivial = a case with both word-level and RDH-level messages, or messages under a filter that skips packets; distinct by input hash x configuration.",
        assumptions: vec![
            "payload layout agrees with the header's data format (the property's own proviso); generators enforce it".into(),
            "messages that quote other words (E701 context) are only judged on their leading offset and `ending at`".into(),
        ],
        phases: vec![Phase {
            name: "cli",
            kind: PhaseKind::Gen {
                cases: (8000, 60000),
                tape_len: 40000,
                f: Box::new(cli_case),
            },
            threads: 16,
        }],
    }
}
