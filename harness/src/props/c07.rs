//! C07 - reported offsets and quoted bytes are truthful

use super::common::*;
use crate::cli::{self, ErrMsg};
use crate::engine::*;
use crate::gen::{self, ConfOpts, FrameOpts, MutOpts};
use crate::inproc::ALL_MODES;
use crate::model::*;
use crate::tape::{fnv64, Tape};
use regex::Regex;
use serde_json::json;
use std::collections::{HashMap, HashSet};
use std::sync::OnceLock;

pub struct Truth {
    pub rdh_starts: HashMap<u64, Rdh>,
    pub word_starts: HashSet<u64>,
    pub len: u64,
}

pub fn truth_of(bytes: &[u8]) -> Truth {
    let (walked, _) = walk(bytes);
    let mut rdh_starts = HashMap::new();
    let mut word_starts = HashSet::new();
    for w in &walked {
        rdh_starts.insert(w.offset, w.rdh.clone());
        let slot = if w.rdh.data_format() == 0 { 16 } else { 10 };
        let mut o = w.payload_start;
        while o + 10 <= w.payload_end {
            word_starts.insert(o as u64);
            o += slot;
        }
    }
    Truth {
        rdh_starts,
        word_starts,
        len: bytes.len() as u64,
    }
}

fn ending_at(text: &str) -> Option<u64> {
    static RE: OnceLock<Regex> = OnceLock::new();
    let re = RE.get_or_init(|| Regex::new(r"ending at 0x([0-9A-F]+)").unwrap());
    re.captures(text).and_then(|c| u64::from_str_radix(&c[1], 16).ok())
}

/// the `current :` context row of an RDH message as whitespace-free string
fn current_row(text: &str) -> Option<String> {
    for l in text.lines() {
        if let Some(rest) = l.trim_start().strip_prefix("current :") {
            let rest = rest.split("<---").next().unwrap_or("");
            return Some(rest.chars().filter(|c| !c.is_whitespace()).collect());
        }
    }
    None
}

/// Returns Err(signature, description) if the message is not truthful.
pub fn check_message(m: &ErrMsg, bytes: &[u8], tr: &Truth) -> Result<&'static str, (String, String)> {
    if m.offset >= tr.len {
        return Err(("C07:offset-outside-input".into(), format!("offset {:#X} >= input length {:#X}", m.offset, tr.len)));
    }
    let first_code = m.codes.first().map(|s| s.as_str()).unwrap_or("");
    let is_rdh_level = matches!(first_code, "10" | "11") || m.text.contains("Payload error following RDH");
    if is_rdh_level {
        let Some(r) = tr.rdh_starts.get(&m.offset) else {
            return Err((format!("C07:rdh-msg-not-at-rdh:E{first_code}"), format!("RDH-level message at {:#X} which is not the start of an RDH of the chain", m.offset)));
        };
        if let Some(row) = current_row(&m.text) {
            let want: String = r.view_tokens().concat();
            if row != want {
                return Err(("C07:rdh-context-row-mismatch".into(), format!("`current :` row `{row}` != decode of the 64 bytes at the offset `{want}`")));
            }
        }
        return Ok("rdh");
    }
    // everything else is about a payload word
    if !tr.word_starts.contains(&m.offset) {
        return Err((format!("C07:word-msg-not-at-word:E{first_code}"), format!("word-level message at {:#X} which is not the start of a payload word", m.offset)));
    }
    if let Some(d) = m.dump {
        let o = m.offset as usize;
        if bytes[o..o + 10] != d {
            return Err((
                format!("C07:quoted-bytes-differ:E{first_code}"),
                format!("message quotes [{}] but the input holds [{}] at {:#X}", word_hex(&d), word_hex(&bytes[o..o + 10]), m.offset),
            ));
        }
    }
    if matches!(first_code, "59" | "701" | "72" | "73" | "74" | "75") && m.dump.is_none() {
        if first_code == "59" {
            if bytes[m.offset as usize + 9] != ID_TDT {
                return Err(("C07:E59-not-at-tdt".into(), "E59 is about a TDT but the word at the offset does not carry the TDT id".into()));
            }
        } else if let Some(e) = ending_at(&m.text) {
            if !tr.word_starts.contains(&e) || e >= tr.len || bytes[e as usize + 9] != ID_TDT {
                return Err((format!("C07:frame-end-not-at-tdt:E{first_code}"), format!("`ending at {e:#X}` is not the start of a TDT word")));
            }
            if e < m.offset {
                return Err((format!("C07:frame-end-before-start:E{first_code}"), format!("frame end {e:#X} lies before frame start {:#X}", m.offset)));
            }
        }
        return Ok("frame");
    }
    Ok("word")
}

fn gen_input(t0: &mut Tape, labels: &mut Vec<String>) -> (Vec<u8>, Vec<Rdh>) {
    let mut g = t0.fork(8);
    if g.chance(1, 2) {
        labels.push("input:G_frame_words".into());
        let (s, l) = gen::gen_frame_stream(
            t0,
            &FrameOpts {
                max_packets: 110,
                word_payload: true,
                its_first: g.chance(3, 4),
                ..Default::default()
            },
        );
        labels.extend(l);
        let (bytes, lay) = s.encode();
        (bytes, rdhs_of(&s, &lay))
    } else {
        labels.push("input:G_mut_conf".into());
        let mut cs = gen::gen_conf_stream(
            t0,
            &ConfOpts {
                max_links: 5,
                max_hbfs: 3,
                big_16: 1,
                ..Default::default()
            },
        );
        let mut mt = t0.fork(300);
        let n = 1 + mt.below(8);
        gen::mutate_stream(
            &mut mt,
            &mut cs.stream,
            &MutOpts {
                protect_first: true,
                keep_framing: true,
                keep_layout: true,
            },
            n,
            labels,
        );
        let (bytes, lay) = cs.stream.encode();
        (bytes, rdhs_of(&cs.stream, &lay))
    }
}

fn cli_case(t0: &mut Tape, w: &Worker) -> CaseResult {
    let mut ot = t0.fork(32);
    let mut out = CaseOut::default();
    let (bytes, rdhs) = gen_input(t0, &mut out.labels);
    let tr = truth_of(&bytes);
    let mut case = CliCase::new(w, bytes.clone());
    let mut kinds: HashSet<&'static str> = HashSet::new();
    let mut under_filter_msgs = 0;
    for _ in 0..2 {
        let mode = *ot.pick(&ALL_MODES);
        let filter = gen::gen_filter(&mut ot, &rdhs, true);
        let mute = ot.chance(1, 3);
        let stdin = ot.chance(1, 2);
        let mut args = mode.args();
        args.extend(filter.args());
        if mute {
            args.push("-m".into());
        }
        let sp = w.path("st.json");
        args.extend(stats_args(&sp, false));
        let (spec, o) = case.run(args, stdin);
        if o.timed_out || o.crash_signature().is_some() {
            // crashes are C04's business; do not double report here
            out.labels.push(format!("skipped:crash_or_timeout:{}", o.crash_signature().unwrap_or_else(|| "timeout".into())));
            continue;
        }
        let mut msgs: Vec<ErrMsg> = cli::error_messages(&o.stderr);
        if let Some(st) = read_stats(&sp, false) {
            if let Some(a) = st["error_stats"]["reported_errors"].as_array() {
                for e in a {
                    if let Some(m) = e.as_str().and_then(cli::parse_err_msg) {
                        msgs.push(m);
                    }
                }
            }
        }
        for m in &msgs {
            match check_message(m, &bytes, &tr) {
                Ok(k) => {
                    kinds.insert(k);
                }
                Err((sig, why)) => {
                    return Err(Fail::new(
                        sig,
                        why,
                        json!({"message": m.text, "mode": mode.name(), "filter": format!("{filter:?}"), "cmd": spec.describe(), "input": input_detail(&bytes)}),
                    ));
                }
            }
        }
        if filter != Filter::None && !msgs.is_empty() && rdhs.iter().any(|r| !filter.matches(r)) {
            under_filter_msgs += 1;
        }
        out.labels.push(format!("mode:{}", mode.name()));
        out.labels.push(filter.label().into());
        if w.take_sample() {
            out.sample = Some(json!({"cmd": spec.describe(), "messages": msgs.len(), "first_message": msgs.first().map(|m| m.text.lines().next().unwrap_or("").to_string())}));
        }
    }
    for k in &kinds {
        out.labels.push(format!("msg_kind:{k}"));
    }
    out.nontrivial = (kinds.contains("word") && kinds.contains("rdh")) || under_filter_msgs > 0;
    out.fingerprint = fnv64(&bytes) ^ fnv64(out.labels.join(",").as_bytes());
    out.execs = case.execs;
    out.labels.sort();
    out.labels.dedup();
    Ok(out)
}

pub fn build() -> Property {
    Property {
        id: "C07",
        rule: "Inputs: G_frame streams with word-structured payloads laid out as the header's data format says (all word classes incl. invalid ids, random bits; colliding link/FEE populations) \
               and G_mut corruptions of multi-link G_conf streams that keep framing and layout; x five check modes x filter {none, link, FEE, stave} x mute x file/stdin. \
               Every error message (stderr and statistics file) is judged by a round trip against the input: offset inside the input; RDH-level messages (E10/E11/padding) at an RDH start of the chain \
               with a `current :` row equal to an independent decode; word-level messages at a word start with the quoted 10 bytes equal to the input bytes; frame-level messages at a word start with \
               `ending at` on a TDT. Non-trivial = a case with both word-level and RDH-level messages, or messages under a filter that skips packets; distinct by input hash x configuration.",
        assumptions: vec![
            "payload layout agrees with the header's data format (the property's own proviso); generators enforce it".into(),
            "messages that quote other words (E701 context) are only judged on their leading offset and `ending at`".into(),
        ],
        phases: vec![Phase {
            name: "cli",
            kind: PhaseKind::Gen {
                cases: (8000, 60000),
                tape_len: 40000,
                f: Box::new(cli_case),
            },
            threads: 16,
        }],
    }
}
