//! C03 - scanning follows the RDH chain exactly in every input mode

use super::common::*;
use crate::cli;
use crate::engine::*;
use crate::gen::{self, FrameOpts};
use crate::inproc;
use crate::model::*;
use crate::tape::{fnv64, Tape};
use alice_protocol_reader::prelude::*;
use fastpasta::config::test_util::MockConfig;
use serde_json::json;
use std::io::{Cursor, Read, Seek, SeekFrom};

/// in-memory reader: `pipe = false` seeks, `pipe = true` reads and discards (like the stdin reader)
pub struct MemReader {
    cur: Cursor<Vec<u8>>,
    pipe: bool,
}

impl Read for MemReader {
    fn read(&mut self, buf: &mut [u8]) -> std::io::Result<usize> {
        self.cur.read(buf)
    }
}
impl Seek for MemReader {
    fn seek(&mut self, pos: SeekFrom) -> std::io::Result<u64> {
        self.cur.seek(pos)
    }
}
impl BufferedReaderWrapper for MemReader {
    fn seek_relative_offset(&mut self, offset: i64) -> std::io::Result<()> {
        if self.pipe {
            let mut buf = vec![0u8; offset as usize];
            self.cur.read_exact(&mut buf).map_err(|e| std::io::Error::new(std::io::ErrorKind::InvalidInput, e.to_string()))
        } else {
            self.cur.seek(SeekFrom::Current(offset)).map(|_| ())
        }
    }
}

fn filter_cfg(f: &Filter, skip_payload: bool) -> MockConfig {
    let mut c = MockConfig::new();
    c.skip_payload = skip_payload;
    match f {
        Filter::None => {}
        Filter::Link(l) => c.filter_link = Some(*l),
        Filter::Fee(x) => c.filter_fee = Some(*x),
        Filter::Stave(l, s) => c.filter_its_stave = Some(format!("L{l}_{s}")),
    }
    c
}

fn rdh_fields_equal(r: &RdhCru, m: &Rdh) -> Option<String> {
    let chk = [
        ("version", r.version() as u64, m.version as u64),
        ("fee_id", r.fee_id() as u64, m.fee_id as u64),
        ("link_id", r.link_id() as u64, m.link_id as u64),
        ("offset_to_next", r.offset_to_next() as u64, m.offset_next as u64),
        ("payload_size", r.payload_size() as u64, (m.memory_size.wrapping_sub(64)) as u64),
        ("stop_bit", r.stop_bit() as u64, m.stop_bit as u64),
        ("pages_counter", r.pages_counter() as u64, m.pages_counter as u64),
        ("data_format", RDH_CRU::data_format(r) as u64, m.data_format() as u64),
        ("trigger_type", r.trigger_type() as u64, m.trigger_type as u64),
        ("cru_id", RDH_CRU::cru_id(r) as u64, m.cru_id() as u64),
        ("dw", RDH_CRU::dw(r) as u64, m.dw() as u64),
        ("packet_counter", r.packet_counter() as u64, m.packet_counter as u64),
        ("bc", r.rdh1().bc() as u64, m.bc() as u64),
        ("orbit", { let o = r.rdh1().orbit; o as u64 }, m.orbit as u64),
        ("detector_field", { let d = r.rdh3().detector_field; d as u64 }, m.detector_field as u64),
        ("system_id", r.rdh0().system_id as u64, m.system_id as u64),
        ("header_size", r.rdh0().header_size as u64, m.header_size as u64),
        ("priority", r.rdh0().priority_bit as u64, m.priority as u64),
    ];
    for (n, a, b) in chk {
        if a != b {
            return Some(format!("{n}: tool {a} != independent decode {b}"));
        }
    }
    None
}

fn gen_case_stream(t0: &mut Tape, max_packets: usize, allow_near_max: bool) -> (Vec<u8>, Vec<Walked>, Filter, Vec<String>) {
    let mut ot = t0.fork(16);
    // one case in 40: more than 100 packets that all carry close to the largest payload (full batches of the reader)
    let near_max = allow_near_max && ot.chance(1, 40);
    let (s, mut labels) = gen::gen_frame_stream(
        t0,
        &FrameOpts {
            max_packets,
            word_payload: false,
            max_payload: if near_max || ot.chance(1, 8) { 10_000 } else { 600 },
            near_max,
            ..Default::default()
        },
    );
    let (bytes, _lay) = s.encode();
    let (walked, end) = walk(&bytes);
    assert_eq!(end, WalkEnd::CleanEof, "G_frame must be well framed");
    let rdhs: Vec<Rdh> = walked.iter().map(|w| w.rdh.clone()).collect();
    let filter = gen::gen_filter(&mut ot, &rdhs, true);
    labels.push(filter.label().to_string());
    (bytes, walked, filter, labels)
}

fn inproc_case(t0: &mut Tape, w: &Worker) -> CaseResult {
    let mut ot = t0.fork(8);
    let (bytes, walked, filter, mut labels) = gen_case_stream(t0, 320, false);
    let skip = ot.chance(1, 2);
    let pipe = ot.chance(1, 2);
    labels.push(if skip { "payload:skipped".into() } else { "payload:loaded".into() });
    labels.push(if pipe { "reader:read-discard".into() } else { "reader:seek".into() });
    let cfg = filter_cfg(&filter, skip);
    let reader = MemReader {
        cur: Cursor::new(bytes.clone()),
        pipe,
    };
    let mut scanner = InputScanner::new(&cfg, Box::new(reader), None);
    let expected: Vec<&Walked> = walked.iter().filter(|x| filter.matches(&x.rdh)).collect();
    let mut got = 0usize;
    let detail = |what: String, i: usize| {
        json!({"what": what, "index_among_matching": i, "filter": format!("{filter:?}"), "skip_payload": skip, "pipe_like_reader": pipe,
               "n_packets": walked.len(), "input": input_detail(&bytes)})
    };
    loop {
        let r = inproc::catch(std::panic::AssertUnwindSafe(|| scanner.load_cdp::<RdhCru>()));
        let r = match r {
            Err(p) => return Err(Fail::new("C03:scanner-panic", format!("InputScanner panicked: {p}"), detail(p.clone(), got))),
            Ok(r) => r,
        };
        match r {
            Ok((rdh, payload, off)) => {
                let Some(exp) = expected.get(got) else {
                    return Err(Fail::new("C03:extra-packet", "scanner returned more packets than the chain holds", detail("extra".into(), got)));
                };
                if off != exp.offset {
                    let sig = if filter != Filter::None { "C03:offset-wrong-under-filter" } else { "C03:offset-wrong" };
                    return Err(Fail::new(
                        sig,
                        format!("packet handed on with offset {off:#X}, true start is {:#X}", exp.offset),
                        detail(format!("offset {off:#X} vs {:#X}", exp.offset), got),
                    ));
                }
                if let Some(d) = rdh_fields_equal(&rdh, &exp.rdh) {
                    return Err(Fail::new("C03:field-mismatch", d.clone(), detail(d, got)));
                }
                if rdh.to_byte_slice() != &bytes[exp.offset as usize..exp.offset as usize + 64] {
                    return Err(Fail::new("C03:rdh-bytes-mismatch", "RDH bytes differ from the file", detail("rdh bytes".into(), got)));
                }
                if skip {
                    if !payload.is_empty() {
                        return Err(Fail::new("C03:payload-not-skipped", "payload returned although skipping was requested", detail("payload".into(), got)));
                    }
                } else if payload.as_slice() != &bytes[exp.payload_start..exp.payload_end] {
                    return Err(Fail::new("C03:payload-mismatch", "payload bytes differ from the bytes that follow the RDH", detail("payload".into(), got)));
                }
                got += 1;
            }
            Err(_) => break,
        }
        if got > walked.len() + 2 {
            break;
        }
    }
    if got != expected.len() {
        return Err(Fail::new(
            "C03:missing-packets",
            format!("scanner returned {got} packets, chain has {} matching", expected.len()),
            detail("count".into(), got),
        ));
    }
    let mut out = CaseOut::default();
    let skipped_before_match = walked.iter().position(|x| filter.matches(&x.rdh)).map(|p| p > 0).unwrap_or(false);
    out.nontrivial = walked.len() >= 3 && (skipped_before_match || walked.len() >= 100 || (!skip && walked.iter().any(|x| x.payload_end > x.payload_start)));
    out.fingerprint = fnv64(&bytes) ^ fnv64(format!("{filter:?}{skip}{pipe}").as_bytes());
    if skipped_before_match {
        labels.push("filter_skips_before_match".into());
    }
    if w.take_sample() {
        out.sample = Some(json!({"kind": "inproc", "packets": walked.len(), "matching": expected.len(), "filter": format!("{filter:?}"), "skip_payload": skip,
                                 "first_rdh": walked.first().map(|x| x.rdh.summary())}));
    }
    out.labels = labels;
    Ok(out)
}

/// `view rdh -d` rows: (offset, rest-without-whitespace)
pub fn parse_rdh_view(stdout: &str) -> Vec<(u64, String)> {
    let mut rows = vec![];
    for line in stdout.lines() {
        let l = line.trim_start();
        if let Some((off, rest)) = l.split_once(':') {
            if !off.is_empty() && off.chars().all(|c| c.is_ascii_hexdigit()) {
                if let Ok(o) = u64::from_str_radix(off, 16) {
                    rows.push((o, rest.chars().filter(|c| !c.is_whitespace()).collect()));
                }
            }
        }
    }
    rows
}

fn cli_case(t0: &mut Tape, w: &Worker) -> CaseResult {
    let mut ot = t0.fork(8);
    let (bytes, walked, filter, mut labels) = gen_case_stream(t0, 320, true);
    let stdin = ot.chance(1, 2);
    labels.push(if stdin { "src:stdin".into() } else { "src:file".into() });
    let mut case = CliCase::new(w, bytes.clone());
    case.stall_one_in = 25; // now and then the producer on the pipe stalls for 1.3 s in mid-stream
    let mut args: Vec<String> = vec!["view".into(), "rdh".into(), "-d".into()];
    args.extend(filter.args());
    let (spec, o) = case.run(args, stdin);
    let detail = |what: String| {
        json!({"what": what, "cmd": spec.describe(), "out": o.brief(), "filter": format!("{filter:?}"), "n_packets": walked.len(), "input": input_detail(&bytes)})
    };
    if let Some(f) = crash_check(&spec, &o, &bytes, &[0, 1]) {
        return Err(f);
    }
    let rows = parse_rdh_view(&cli::strip_ansi(&o.stdout_str()));
    let expected: Vec<&Walked> = walked.iter().filter(|x| filter.matches(&x.rdh)).collect();
    // an unknown system id in the first *analysed* packet stops processing by design: then rows may be a prefix
    let fatal = cli::has_fatal(&o.stderr);
    if !fatal && rows.len() != expected.len() {
        return Err(Fail::new(
            "C03:view-row-count",
            format!("view rdh printed {} rows, chain has {} matching RDHs", rows.len(), expected.len()),
            detail("row count".into()),
        ));
    }
    for (i, (off, rest)) in rows.iter().enumerate() {
        let Some(exp) = expected.get(i) else {
            return Err(Fail::new("C03:view-extra-row", "more rows than matching RDHs", detail("extra row".into())));
        };
        if *off != exp.offset {
            let sig = if filter != Filter::None { "C03:offset-wrong-under-filter" } else { "C03:offset-wrong" };
            return Err(Fail::new(
                sig,
                format!("row {i} shows offset {off:#X}, true start is {:#X}", exp.offset),
                detail(format!("row {i}")),
            ));
        }
        let want: String = exp.rdh.view_tokens().concat();
        if *rest != want {
            return Err(Fail::new(
                "C03:view-field-mismatch",
                format!("row {i}: `{rest}` != independent decode `{want}`"),
                detail(format!("row {i}")),
            ));
        }
    }
    let mut out = CaseOut::default();
    let skipped_before_match = walked.iter().position(|x| filter.matches(&x.rdh)).map(|p| p > 0).unwrap_or(false);
    if skipped_before_match {
        labels.push("filter_skips_before_match".into());
    }
    if fatal {
        labels.push("fatal_by_design(unknown system id)".into());
    }
    out.nontrivial = walked.len() >= 3 && !fatal && (skipped_before_match || walked.len() >= 100);
    out.fingerprint = fnv64(&bytes) ^ fnv64(format!("{filter:?}{stdin}").as_bytes());
    out.execs = case.execs;
    if w.take_sample() {
        out.sample = Some(json!({"kind": "cli view rdh", "cmd": spec.describe(), "rows": rows.len(), "first_row": rows.first()}));
    }
    out.labels = labels;
    Ok(out)
}

/// payload loaded path through the CLI: data view prints every word with offset and bytes
fn cli_payload_case(t0: &mut Tape, w: &Worker) -> CaseResult {
    let mut ot = t0.fork(8);
    // one case in 40: more than 100 packets that all carry more than 8 KiB (full batches of the reader, payloads loaded)
    let near_max = ot.chance(1, 40);
    let (mut s, mut labels) = gen::gen_frame_stream(
        t0,
        &FrameOpts {
            max_packets: 210,
            word_payload: true,
            valid_layers: true,
            its_first: true,
            near_max,
            ..Default::default()
        },
    );
    // recognised ids only (unknown ids are printed on stderr; C19 covers them)
    let valid_ids = [ID_IHW, ID_TDH, ID_TDT, ID_DDW0, ID_CDW, 0x20, 0x28, 0x40, 0x46, 0x48, 0x4E, 0x50, 0x58, 0x5E];
    for p in s.links[0].packets.iter_mut() {
        for wd in p.words.iter_mut() {
            if kind_of_id(wd[9]) == WordKind::Other {
                wd[9] = valid_ids[(wd[0] as usize) % valid_ids.len()];
            }
        }
        if p.rdh.data_format() != 0 && p.words.len() >= 2 && p.words[1][0..6].iter().all(|b| *b == 0) {
            p.words[1][0] = 1;
        }
        // format byte must be 0 or 2-like for the layout to agree
        p.fix_sizes();
    }
    let (bytes, lay) = s.encode();
    let rdhs = rdhs_of(&s, &lay);
    let filter = gen::gen_filter(&mut ot, &rdhs, true);
    labels.push(filter.label().to_string());
    let stdin = ot.chance(1, 2);
    let mut case = CliCase::new(w, bytes.clone());
    case.stall_one_in = 25; // now and then the producer on the pipe stalls for 1.3 s in mid-stream
    let mut args: Vec<String> = vec!["view".into(), "its-readout-frames-data".into(), "-d".into()];
    args.extend(filter.args());
    let (spec, o) = case.run(args, stdin);
    if let Some(f) = crash_check(&spec, &o, &bytes, &[0, 1]) {
        return Err(f);
    }
    let detail = |what: String| {
        json!({"what": what, "cmd": spec.describe(), "out": o.brief(), "filter": format!("{filter:?}"), "input": input_detail(&bytes)})
    };
    // expected rows: RDH row then one per word, for matching packets
    let mut expected: Vec<(u64, Option<Word>)> = vec![];
    for (i, pa) in lay.packets.iter().enumerate() {
        let p = s.packet(&lay, i);
        if !filter.matches(&p.rdh) {
            continue;
        }
        expected.push((pa.offset, None));
        // over-padded payloads are a fatal view error by design; the generator never makes them (pad <= 15)
        for (wi, wd) in p.words.iter().enumerate() {
            expected.push((s.word_offset(&lay, i, wi), Some(*wd)));
        }
    }
    let mut got: Vec<(u64, Option<Word>)> = vec![];
    let re_dump = regex::Regex::new(r"\[((?:[0-9A-F]{2} ){9}[0-9A-F]{2})\]").unwrap();
    for line in cli::strip_ansi(&o.stdout_str()).lines() {
        let l = line.trim_start();
        let Some((off, rest)) = l.split_once(':') else { continue };
        if off.is_empty() || !off.chars().all(|c| c.is_ascii_hexdigit()) {
            continue;
        }
        let Ok(off) = u64::from_str_radix(off, 16) else { continue };
        if rest.trim_start().starts_with("RDH v") {
            got.push((off, None));
        } else if let Some(m) = re_dump.captures(rest) {
            let mut b = [0u8; 10];
            for (i, h) in m[1].split(' ').enumerate() {
                b[i] = u8::from_str_radix(h, 16).unwrap_or(0);
            }
            got.push((off, Some(b)));
        }
    }
    if cli::has_fatal(&o.stderr) {
        labels.push("fatal".into());
        if !expected.starts_with(&got) {
            return Err(Fail::new("C03:payload-view-prefix", "rows printed before the fatal stop are not a prefix of the expected rows", detail("prefix".into())));
        }
    } else if got != expected {
        let i = got.iter().zip(expected.iter()).position(|(a, b)| a != b).unwrap_or(got.len().min(expected.len()));
        let sig = if filter != Filter::None && got.get(i).map(|g| g.1.is_none()).unwrap_or(false) && got.get(i).map(|g| g.0) != expected.get(i).map(|g| g.0) {
            "C03:offset-wrong-under-filter"
        } else if filter != Filter::None {
            "C03:payload-view-mismatch-under-filter"
        } else {
            "C03:payload-view-mismatch"
        };
        return Err(Fail::new(
            sig,
            format!("row {i}: got {:?}, expected {:?} ({} vs {} rows)", got.get(i), expected.get(i), got.len(), expected.len()),
            detail(format!("row {i}")),
        ));
    }
    let mut out = CaseOut::default();
    out.nontrivial = lay.packets.len() >= 3 && expected.iter().any(|e| e.1.is_some());
    out.fingerprint = fnv64(&bytes) ^ fnv64(format!("{filter:?}{stdin}p").as_bytes());
    out.execs = case.execs;
    if w.take_sample() {
        out.sample = Some(json!({"kind": "cli data view", "cmd": spec.describe(), "rows": got.len()}));
    }
    out.labels = labels;
    Ok(out)
}

/// hand-built reproduction of the repaired filter-offset defect (F1), independent of the generators
fn regress_case(i: u64, w: &Worker) -> CaseResult {
    let mut bytes = vec![];
    let mut offs = vec![];
    for (k, link) in [0u8, 0, 1, 0, 1].iter().enumerate() {
        let mut r = Rdh { link_id: *link, packet_counter: k as u8, ..Rdh::default() };
        r.set_sizes(16 * k);
        offs.push((bytes.len() as u64, *link));
        bytes.extend_from_slice(&r.encode());
        bytes.extend(std::iter::repeat(0x11).take(16 * k));
    }
    let mut case = CliCase::new(w, bytes.clone());
    let (spec, o) = case.run(vec!["view".into(), "rdh".into(), "-d".into(), "-f".into(), "1".into()], i % 2 == 1);
    let rows: Vec<u64> = parse_rdh_view(&cli::strip_ansi(&o.stdout_str())).iter().map(|r| r.0).collect();
    let want: Vec<u64> = offs.iter().filter(|x| x.1 == 1).map(|x| x.0).collect();
    if rows != want {
        return Err(Fail::new("C03:offset-wrong-under-filter", format!("rows at {rows:X?}, matching RDHs start at {want:X?}"), json!({"cmd": spec.describe(), "input": input_detail(&bytes)})));
    }
    let mut out = CaseOut::default();
    out.nontrivial = true;
    out.fingerprint = 0xF1 + i;
    out.execs = 1;
    out.labels.push("regress:F1".into());
    Ok(out)
}

/// one long stream (10^5 packets, many batches): scanner in-process and `view rdh` through the CLI
fn big_stream_case(i: u64, w: &Worker) -> CaseResult {
    let n = 100_000usize + (i as usize) * 37; // 100 000 (a multiple of the batch size) and 100 037
    let mut bytes: Vec<u8> = Vec::with_capacity(n * 80);
    let mut x = crate::tape::mix(0xC03 + i);
    let mut offsets: Vec<(u64, u8)> = Vec::with_capacity(n);
    for k in 0..n {
        x = crate::tape::mix(x);
        let link = (x % 5) as u8;
        let plen = if x % 17 == 0 { ((x >> 8) % 300) as usize } else { 0 };
        let mut r = Rdh { link_id: link, fee_id: fee_id((x % 7) as u8, 0, ((x >> 4) % 48) as u8), orbit: k as u32, packet_counter: k as u8, ..Rdh::default() };
        r.set_sizes(plen);
        offsets.push((bytes.len() as u64, link));
        bytes.extend_from_slice(&r.encode());
        bytes.extend(std::iter::repeat((k & 0xFF) as u8).take(plen));
    }
    let filter = if i % 2 == 0 { Filter::None } else { Filter::Link(3) };
    let expected: Vec<u64> = offsets.iter().filter(|(_, l)| filter == Filter::None || *l == 3).map(|(o, _)| *o).collect();
    // in-process, both reader flavours, payload loaded
    for pipe in [false, true] {
        let cfg = filter_cfg(&filter, false);
        let mut scanner = InputScanner::new(&cfg, Box::new(MemReader { cur: Cursor::new(bytes.clone()), pipe }), None);
        let mut got = 0usize;
        while let Ok((rdh, payload, off)) = scanner.load_cdp::<RdhCru>() {
            if got >= expected.len() || off != expected[got] || payload.len() != rdh.payload_size() as usize {
                return Err(Fail::new("C03:big-stream:inproc", format!("packet {got}: offset {off:#X}, expected {:?}", expected.get(got)), json!({"n": n, "filter": format!("{filter:?}"), "pipe_like": pipe})));
            }
            got += 1;
        }
        if got != expected.len() {
            return Err(Fail::new("C03:big-stream:inproc-count", format!("{got} packets returned, {} expected", expected.len()), json!({"n": n, "filter": format!("{filter:?}"), "pipe_like": pipe})));
        }
    }
    // CLI
    let mut case = CliCase::new(w, bytes);
    let mut args: Vec<String> = vec!["view".into(), "rdh".into(), "-d".into()];
    args.extend(filter.args());
    let (spec, o) = case.run(args, i % 2 == 1);
    if o.timed_out || o.crash_signature().is_some() {
        return Err(Fail::new("C03:big-stream:crash", "crash or hang on the long stream", json!({"cmd": spec.describe(), "out": o.brief()})));
    }
    let rows = parse_rdh_view(&cli::strip_ansi(&o.stdout_str()));
    let got: Vec<u64> = rows.iter().map(|r| r.0).collect();
    if got != expected {
        let k = got.iter().zip(expected.iter()).position(|(a, b)| a != b).unwrap_or(got.len().min(expected.len()));
        return Err(Fail::new("C03:big-stream:cli", format!("view rdh: {} rows, {} expected; first difference at row {k}", got.len(), expected.len()), json!({"cmd": spec.describe(), "n": n})));
    }
    let mut out = CaseOut::default();
    out.nontrivial = true;
    out.fingerprint = n as u64 ^ i;
    out.execs = 1;
    out.labels.push(format!("big_stream:{n}_packets:{}", filter.label()));
    out.sample = Some(json!({"kind": "big stream", "packets": n, "bytes": case.data.len(), "filter": format!("{filter:?}"), "rows": got.len()}));
    Ok(out)
}

pub fn build() -> Property {
    Property {
        id: "C03",
        rule: "G_frame well-framed streams (packet counts {1,2,3..,99..101,199..201,300}, payload 0..10000 with weight on 0/1/9999/10000, arbitrary header values, \
               colliding link/FEE populations) x filter {none, link, FEE, layer/stave; present or absent}. (0, thorough only) two streams of 10^5 packets (a multiple of the batch size and 37 more) through the scanner and `view rdh`; (a) in-process InputScanner::load_cdp over an in-memory reader \
               (seek and read-discard flavours, payload loaded / skipped); (b) real CLI `view rdh -d` (payload skipped) and `view its-readout-frames-data -d` (payload loaded), file and stdin. \
               Oracle: independent chain walk o_{i+1}=o_i+offset_i with independent filter predicate and field decode: same packets, once, in order, true offsets, field values, payload bytes. \
               Non-trivial = >=3 packets and (filter skipping a packet before a match | >=100 packets | payload loaded); distinct by stream hash x configuration.",
        assumptions: vec![
            "well-framed: offset_to_next == memory_size in 64..=10064 for every packet".into(),
            "the first RDH0 passes the documented pre-check and carries a known system id".into(),
        ],
        phases: vec![
            Phase { name: "regress_fixed", kind: PhaseKind::Enum { n: (2, 2), exhaustive: (false, false), f: Box::new(regress_case) }, threads: 2 },
            Phase {
                name: "big_stream_100k",
                kind: PhaseKind::Enum { n: (0, 2), exhaustive: (false, false), f: Box::new(big_stream_case) },
                threads: 2,
            },
            Phase {
                name: "inproc_scanner",
                kind: PhaseKind::Gen {
                    cases: (100000, 1000000),
                    tape_len: 6000,
                    f: Box::new(inproc_case),
                },
                threads: 16,
            },
            Phase {
                name: "cli_view_rdh",
                kind: PhaseKind::Gen {
                    cases: (6000, 40000),
                    tape_len: 6000,
                    f: Box::new(cli_case),
                },
                threads: 16,
            },
            Phase {
                name: "cli_payload_view",
                kind: PhaseKind::Gen {
                    cases: (3000, 20000),
                    tape_len: 12000,
                    f: Box::new(cli_payload_case),
                },
                threads: 16,
            },
        ],
    }
}
