//! C10 - RDH sanity and running checks implement the documented rules exactly

use super::common::*;
use crate::cli;
use crate::engine::*;
use crate::inproc::{self, Mode};
use crate::model::*;
use crate::tape::{fnv64, Tape};
use alice_protocol_reader::prelude::RdhCru;
use fastpasta::analyze::validators::rdh::{RdhCruSanityValidator, SpecializeChecks};
use fastpasta::analyze::validators::rdh_running::RdhCruRunningChecker;
use serde_json::json;

/// conforming baseline: HBFs of `pages` data pages + stop page
pub fn baseline(n_hbf: usize, pages: usize) -> Vec<Rdh> {
    baseline_v(n_hbf, pages, 7)
}

/// header versions the enumerated phases use as "first version seen" (the tool accepts 3..=100)
const BASE_VERSIONS: [u8; 4] = [7, 6, 3, 100];

pub fn baseline_v(n_hbf: usize, pages: usize, version: u8) -> Vec<Rdh> {
    let mut v = vec![];
    let mut orbit = 1000u32;
    for _ in 0..n_hbf {
        orbit += 1;
        for p in 0..=pages {
            v.push(Rdh {
                fee_id: fee_id(3, 1, 7),
                link_id: 2,
                orbit,
                pages_counter: p as u16,
                stop_bit: (p == pages) as u8,
                bc_word: 0x123,
                version,
                ..Rdh::default()
            });
        }
    }
    v
}

/// compare both validators with the references over a sequence; returns (n_e10, n_e11, n_free)
pub fn check_sequence(rdhs: &[Rdh], its: bool, how: &str) -> Result<(usize, usize, usize), Fail> {
    let mut sanity: RdhCruSanityValidator<RdhCru> = if its { RdhCruSanityValidator::with_specialization(SpecializeChecks::ITS) } else { RdhCruSanityValidator::new() };
    let mut running: RdhCruRunningChecker<RdhCru> = RdhCruRunningChecker::new();
    let mut reference = RefRunning::new();
    let first_version = rdhs[0].version;
    let (mut n10, mut n11, mut nfree) = (0, 0, 0);
    for (i, r) in rdhs.iter().enumerate() {
        let b = r.encode();
        let rdh = inproc::load_rdh(&b);
        let got10 = sanity.sanity_check(&rdh).is_err();
        let want10 = ref_rdh_sanity_fails(&b, first_version, its);
        if got10 != want10 {
            return Err(Fail::new(
                format!("C10:sanity-{}", if want10 { "missed" } else { "false-alarm" }),
                format!("RDH {i}: sanity check {} E10 but the documented conditions are {}", if got10 { "reports" } else { "does not report" }, if want10 { "violated" } else { "met" }),
                json!({"index": i, "rdh": r.summary(), "rdh_hex": crate::tape::hex(&b), "its_target": its, "generated_by": how, "first_version": first_version}),
            ));
        }
        let e11_text = running.check(&rdh).err().unwrap_or_default();
        let got11 = !e11_text.is_empty();
        let reasons = reference.step_reasons(r);
        let verdict = reasons.overall();
        if verdict == Verdict::Free {
            nfree += 1;
        }
        if let Some((rule, reported)) = reasons.disagrees(&e11_text) {
            return Err(Fail::new(
                format!("C10:running-{}:{rule}", if reported { "false-alarm" } else { "missed" }),
                format!("RDH {i}: rule `{rule}` is {} by the running check but the documented automaton says the opposite (message: `{}`)", if reported { "reported" } else { "not reported" }, e11_text.trim()),
                json!({"index": i, "rdh": r.summary(), "previous": if i > 0 { rdhs[i - 1].summary() } else { json!(null) }, "generated_by": how,
                       "history_tail": rdhs[i.saturating_sub(4)..=i].iter().map(|x| json!([x.pages_counter, x.stop_bit, x.orbit, x.trigger_type, x.fee_id])).collect::<Vec<_>>()}),
            ));
        }
        n10 += want10 as usize;
        n11 += (verdict == Verdict::Required) as usize;
    }
    Ok((n10, n11, nfree))
}

/// exhaustive: each of the 512 header bits flipped at position first / second / later
fn bitflip_case(i: u64, w: &Worker) -> CaseResult {
    let bit = (i % 512) as usize;
    let pos_kind = (i / 512) % 3;
    let its = (i / 1536) % 2 == 1;
    let base_version = BASE_VERSIONS[((i / 3072) % 4) as usize];
    let mut seq = baseline_v(3, 2, base_version);
    let pos = match pos_kind {
        0 => 0,
        1 => 1,
        _ => 4,
    };
    let mut b = seq[pos].encode();
    b[bit / 8] ^= 1 << (bit % 8);
    seq[pos] = Rdh::decode(&b);
    let (n10, n11, _) = check_sequence(&seq, its, &format!("bit {bit} flipped at packet {pos}"))?;
    let mut out = CaseOut::default();
    out.nontrivial = true;
    out.fingerprint = i;
    out.labels.push(format!("bitflip:E10={} E11={}", n10.min(1), n11.min(1)));
    out.labels.push(format!("base_version:{base_version}"));
    if w.take_sample() {
        out.sample = Some(json!({"kind": "bitflip", "bit": bit, "packet": pos, "its_target": its, "e10": n10, "e11": n11}));
    }
    Ok(out)
}

/// every field at its boundary set
fn boundary_case(i: u64, w: &Worker) -> CaseResult {
    type Setter = fn(&mut Rdh, u32);
    let fields: Vec<(&str, Vec<u32>, Setter)> = vec![
        ("bc", vec![0, 0xDEA, 0xDEB, 0xDEC, 0xFFF], |r, v| r.bc_word = v),
        ("bc_reserved", vec![0x1000, 0x8000_0000], |r, v| r.bc_word = v | 0x10),
        ("stave", vec![0, 46, 47, 48, 63], |r, v| r.fee_id = (r.fee_id & !0x3F) | v as u16),
        ("layer", vec![0, 5, 6, 7], |r, v| r.fee_id = (r.fee_id & !0x7000) | ((v as u16) << 12)),
        ("fee_reserved", vec![0x8000, 0x0800, 0x0400, 0x0080, 0x0040], |r, v| r.fee_id |= v as u16),
        ("fiber", vec![0x100, 0x200, 0x300], |r, v| r.fee_id = (r.fee_id & !0x300) | v as u16),
        ("stop", vec![0, 1, 2, 255], |r, v| r.stop_bit = v as u8),
        ("format", vec![0, 1, 2, 3, 255], |r, v| r.format_word = v as u64),
        ("format_reserved", vec![1, 0x80], |r, v| r.format_word = 2 | ((v as u64) << 8)),
        ("dw", vec![0, 1, 2, 15], |r, v| r.cruid_dw = (r.cruid_dw & 0xFFF) | ((v as u16) << 12)),
        ("cru_id", vec![0, 0xFFF], |r, v| r.cruid_dw = (r.cruid_dw & 0xF000) | v as u16),
        ("trigger", vec![0, 1, 1 << 14, 1 << 15, 1 << 20, 1 << 26, 1 << 27, 1 << 31, 0xFFFF_FFFF], |r, v| r.trigger_type = v),
        ("detector", vec![0, 0xFFF, 1 << 11, 1 << 12, 1 << 23, 1 << 24, 0xFF00_0FFF], |r, v| r.detector_field = v),
        ("version", vec![2, 5, 6, 7, 8, 101], |r, v| r.version = v as u8),
        ("header_size", vec![0x3F, 0x40, 0x41], |r, v| r.header_size = v as u8),
        ("priority", vec![0, 1, 255], |r, v| r.priority = v as u8),
        ("system_id", vec![0x1F, 0x20, 0x21], |r, v| r.system_id = v as u8),
        ("rdh0_reserved", vec![1, 0x8000], |r, v| r.rdh0_reserved = v as u16),
        ("rdh2_reserved", vec![1, 0x80], |r, v| r.rdh2_reserved = v as u8),
        ("rdh3_reserved", vec![1, 0x8000], |r, v| r.rdh3_reserved = v as u16),
        ("par_bit", vec![1, 0xFFFF], |r, v| r.par_bit = v as u16),
        ("reserved1", vec![1], |r, _| r.reserved1 = u64::MAX),
        ("reserved2", vec![1], |r, _| r.reserved2 = u64::MAX),
        ("pages", vec![0, 1, 2, 3, 0xFFFF], |r, v| r.pages_counter = v as u16),
        ("orbit", vec![0, 1001, 1002, 0xFFFF_FFFF], |r, v| r.orbit = v),
        ("packet_counter", vec![0, 255], |r, v| r.packet_counter = v as u8),
        ("link", vec![0, 255], |r, v| r.link_id = v as u8),
    ];
    let total: usize = fields.iter().map(|f| f.1.len()).sum();
    let k = (i as usize) % total;
    let pos_kind = (i as usize / total) % 4;
    let its = (i as usize / (total * 4)) % 2 == 1;
    let base_version = BASE_VERSIONS[(i as usize / (total * 8)) % 4];
    let mut acc = 0;
    let mut chosen = None;
    for (name, vals, set) in &fields {
        if k < acc + vals.len() {
            chosen = Some((*name, vals[k - acc], *set));
            break;
        }
        acc += vals.len();
    }
    let (name, val, set) = chosen.unwrap();
    let mut seq = baseline_v(3, 2, base_version);
    let pos = [0usize, 1, 2, 5][pos_kind];
    set(&mut seq[pos], val);
    let (n10, n11, _) = check_sequence(&seq, its, &format!("{name}={val:#x} at packet {pos}"))?;
    let mut out = CaseOut::default();
    out.nontrivial = true;
    out.fingerprint = i;
    out.labels.push(format!("boundary:{name}"));
    out.labels.push(format!("base_version:{base_version}"));
    if w.take_sample() {
        out.sample = Some(json!({"kind": "boundary", "field": name, "value": val, "packet": pos, "its_target": its, "e10": n10, "e11": n11}));
    }
    Ok(out)
}

/// random walk over (page, stop, orbit, trigger, FEE, ...) histories starting at an HBF start
pub fn gen_walk(t: &mut Tape, max_len: usize) -> Vec<Rdh> {
    let n = 2 + t.below(max_len - 1);
    let mut_rate = *t.pick(&[0u32, 1, 2, 4, 8, 16]); // x/32 per RDH
    let mut v: Vec<Rdh> = vec![];
    // boundary-weighted start: 0, small values, wrap-around at u32::MAX, or anything
    let mut orbit = match t.below(5) {
        0 => 0u32.wrapping_sub(1),
        1 => t.below(200) as u32,
        2 => u32::MAX - t.below(8) as u32,
        _ => t.u32(),
    };
    let mut page = 0u16;
    let mut trg = 0x6A03u32;
    let fee = fee_id(t.below(7) as u8, t.below(4) as u8, t.below(48) as u8);
    let mut new_hbf = true;
    // the version every RDH is judged against is the one of the first RDH: mostly 7, often 6, sometimes any accepted value
    let base_version = match t.below(8) {
        0..=3 => 7u8,
        4 | 5 => 6,
        6 => *t.pick(&[3u8, 4, 5, 8, 100]),
        _ => 3 + t.below(98) as u8,
    };
    for i in 0..n {
        if new_hbf {
            orbit = orbit.wrapping_add(1 + t.below(3) as u32);
            page = 0;
            if t.chance(1, 4) {
                trg = (t.u32() & !0x07FF_8000) | 1;
            }
            new_hbf = false;
        }
        // conforming next RDH: stop with probability 1/3 (never on page 0, and the first two are pages 0,1)
        let stop = page > 0 && (t.chance(1, 3) || page > 6);
        let mut r = Rdh {
            fee_id: fee,
            link_id: 3,
            orbit,
            pages_counter: page,
            stop_bit: stop as u8,
            trigger_type: trg,
            bc_word: t.below(0xDEC) as u32,
            detector_field: if t.chance(1, 4) { t.u32() & 0xFFF } else { 0 },
            version: base_version,
            ..Rdh::default()
        };
        if stop {
            new_hbf = true;
        } else {
            page += 1;
        }
        // mutations (never on the first two: the domain starts at an HBF start with pages 0 and 1)
        if i >= 2 && t.chance(mut_rate, 32) {
            match t.below(13) {
                0 => r.pages_counter = r.pages_counter.wrapping_add(1 + t.below(3) as u16),
                1 => r.pages_counter = 0,
                2 => r.stop_bit = *t.pick(&[0u8, 1, 2, 3, 255]),
                3 => r.orbit = r.orbit.wrapping_add(1),
                4 => r.orbit = v.last().map(|p| p.orbit).unwrap_or(0),
                5 => r.trigger_type ^= 1 << t.below(15),
                6 => r.fee_id ^= 1 << t.below(6),
                7 => r.bc_word = *t.pick(&[0xDEBu32, 0xDEC, 0xFFF, 0x1DEB]),
                8 => r.trigger_type = *t.pick(&[0u32, 1 << 15, 1 << 26]),
                9 => r.detector_field = 1 << (12 + t.below(12)),
                10 => r.version = *t.pick(&[r.version ^ 1, 7, 6, r.version.wrapping_add(1)]),
                11 => r.format_word = *t.pick(&[0u64, 1, 2, 3, 0xFF, 0x100]),
                // only a violation when an ITS target is selected
                _ => r.system_id = *t.pick(&[0x21u8, 0x1F, 0x00, 0xFF, 0x22]),
            }
            // a mutation may desynchronise the generator's own notion of the HBF: follow what was emitted
            if r.stop_bit == 1 {
                new_hbf = true;
            }
        }
        v.push(r);
    }
    v
}

fn walk_case(t: &mut Tape, w: &Worker) -> CaseResult {
    let its = t.chance(1, 2);
    let len = *t.pick(&[20usize, 60, 200, 1000, 5000]);
    let seq = gen_walk(t, len);
    let (n10, n11, nfree) = check_sequence(&seq, its, "random walk")?;
    let mut out = CaseOut::default();
    out.nontrivial = n11 > 0 && n11 < seq.len() && seq.len() >= 3;
    out.fingerprint = fnv64(&seq.iter().flat_map(|r| r.encode().to_vec()).collect::<Vec<u8>>());
    out.labels.push(format!("walk_len:{}", if seq.len() < 50 { "<50" } else if seq.len() < 500 { "50-499" } else { ">=500" }));
    out.labels.push(format!("e11_fraction:{}", if n11 == 0 { "0".to_string() } else { format!("{}0%", (n11 * 10 / seq.len()).min(9)) }));
    out.labels.push(format!("first_version:{}", match seq[0].version { 7 => "7", 6 => "6", _ => "other" }));
    if n10 > 0 {
        out.labels.push("has_e10".into());
    }
    if nfree > 0 {
        out.labels.push("has_unspecified_successor(stop>1)".into());
    }
    if w.take_sample() {
        out.sample = Some(json!({"kind": "walk", "len": seq.len(), "e10": n10, "e11": n11, "unspecified": nfree, "head": seq.iter().take(6).map(|r| json!([r.pages_counter, r.stop_bit, r.orbit])).collect::<Vec<_>>()}));
    }
    Ok(out)
}

/// through the CLI: E10 / E11 located at the RDH's offset
fn cli_case(t: &mut Tape, w: &Worker) -> CaseResult {
    let seq = gen_walk(t, 150);
    let mode = *t.pick(&[Mode::Sanity, Mode::All, Mode::SanityIts]);
    let its = mode.its();
    // packets without payload
    let packets: Vec<Packet> = seq.iter().map(|r| {
        let mut p = Packet::new(r.clone());
        p.fix_sizes();
        p
    }).collect();
    let stream = Stream::single(Link { packets, barrel: Barrel::Inner, lane_ids: vec![] });
    let (bytes, lay) = stream.encode();
    let first = &seq[0];
    // the file-level pre-check must pass and the link must be one validator: all packets share link id 3
    if first.version < 3 || first.version > 100 {
        return Ok(CaseOut::default());
    }
    let mut case = CliCase::new(w, bytes.clone());
    let stdin = t.chance(1, 2);
    let mut args = mode.args();
    // a custom-checks file that configures the version the first RDH carries anyway must not change any verdict
    let with_custom_version = t.chance(1, 3);
    if with_custom_version {
        let cfile = w.write("checks.toml", format!("rdh_version = {}\n", first.version).as_bytes());
        args.push("--checks-toml".into());
        args.push(cfile.display().to_string());
    }
    let (spec, o) = case.run(args, stdin);
    if let Some(f) = crash_check(&spec, &o, &bytes, &[0, 1]) {
        return Err(f);
    }
    let msgs = cli::error_messages(&o.stderr);
    let mut reference = RefRunning::new();
    for (i, r) in seq.iter().enumerate() {
        let off = lay.packets[i].offset;
        let here: Vec<&cli::ErrMsg> = msgs.iter().filter(|m| m.offset == off).collect();
        let got10 = here.iter().any(|m| m.codes.first().map(|c| c == "10").unwrap_or(false));
        let got11 = here.iter().any(|m| m.codes.first().map(|c| c == "11").unwrap_or(false));
        let want10 = ref_rdh_sanity_fails(&r.encode(), first.version, its);
        let reasons = reference.step_reasons(r);
        let verdict = reasons.overall();
        let e11_text: String = here.iter().filter(|m| m.codes.first().map(|c| c == "11").unwrap_or(false)).map(|m| m.text.lines().next().unwrap_or("").to_string()).collect::<Vec<_>>().join(" ");
        let detail = json!({"index": i, "offset": off, "rdh": r.summary(), "mode": mode.name(), "cmd": spec.describe(), "input": input_detail(&bytes)});
        if got10 != want10 {
            return Err(Fail::new(format!("C10:cli:sanity-{}", if want10 { "missed" } else { "false-alarm" }), format!("CLI: RDH {i} at {off:#X}: E10 reported={got10}, documented conditions violated={want10}"), detail));
        }
        if mode.running() {
            let bad = match verdict {
                Verdict::Required => !got11,
                Verdict::Forbidden => got11,
                Verdict::Free => false,
            };
            if bad {
                return Err(Fail::new(format!("C10:cli:running-{}", if got11 { "false-alarm" } else { "missed" }), format!("CLI: RDH {i} at {off:#X}: E11 reported={got11}, automaton says {verdict:?}"), detail));
            }
            if let Some((rule, reported)) = reasons.disagrees(&e11_text) {
                return Err(Fail::new(format!("C10:cli:running-{}:{rule}", if reported { "false-alarm" } else { "missed" }), format!("CLI: RDH {i} at {off:#X}: rule `{rule}` reported={reported} against the documented automaton (`{e11_text}`)"), detail));
            }
        } else if got11 {
            return Err(Fail::new("C10:cli:running-error-in-sanity-mode", format!("CLI: RDH {i}: E11 reported by `{}`", mode.name()), detail));
        }
    }
    // no E10/E11 anywhere else
    if let Some(m) = msgs.iter().find(|m| !lay.packets.iter().any(|p| p.offset == m.offset)) {
        return Err(Fail::new("C10:cli:message-not-at-rdh", format!("message at {:#X} which is not an RDH offset", m.offset), json!({"msg": m.text, "input": input_detail(&bytes)})));
    }
    let mut out = CaseOut::default();
    out.nontrivial = !msgs.is_empty() && msgs.len() < 2 * seq.len();
    out.fingerprint = fnv64(&bytes) ^ mode.idx() as u64;
    out.execs = case.execs;
    out.labels.push(format!("cli:{}", mode.name()));
    if w.take_sample() {
        out.sample = Some(json!({"kind": "cli", "mode": mode.name(), "rdhs": seq.len(), "messages": msgs.len()}));
    }
    Ok(out)
}

pub fn build() -> Property {
    Property {
        id: "C10",
        rule: "Reference = the lists of doc/checks_list.md applied to the raw 64 bytes (sanity, relative to the first header version seen on the link, + system id 0x20 for ITS targets) and the documented running automaton \
               (expected page counter, reset on stop, orbit must change after stop, orbit/trigger/FEE constancy on page != 0; set-valued after a stop bit > 1 where the document is silent). \
               (1) exhaustive: every one of the 512 header bits flipped at the first / second / a later packet of a conforming HBF sequence, with and without ITS specialisation, for streams whose first header version is 7, 6, 3 or 100; \
               (2) every field at its boundary set (BC DEA/DEB/DEC, stave 46/47/48, layer 6/7, stop 0/1/2, format 2/3, DW 1/2, each spare trigger bit, detector bits 11/12/23/24, version +-1, reserved words) at four positions; \
               (3) proptest random walks of 2..5000 RDHs starting at an HBF start with mutation rates 0..50 %, first header version 7 (half), 6 (quarter) or any accepted value 3..=100; (4) walks through the CLI (`check sanity`, `check all`, `check sanity its`; file and stdin ; a third with a custom-checks file that configures the first RDH's own version) reading E10/E11 and their offsets. \
               Oracle: E10 at RDH i <=> reference sanity fails; E11 at RDH i <=> automaton (modulo `unspecified`); both at RDH i's offset; E11 never in sanity modes. Non-trivial walk = both verdicts occur.",
        assumptions: vec![
            "BC bound is > 0xDEB (the orbit has 3564 bunch crossings; the property's boundary set says the same; the document's `<` is read as `<=`)".into(),
            "sequences begin at an HBF start (first two pages 0 and 1), as the property's quantifier says".into(),
        ],
        phases: vec![
            Phase { name: "bitflips_exhaustive", kind: PhaseKind::Enum { n: (512 * 3 * 2 * 4, 512 * 3 * 2 * 4), exhaustive: (true, true), f: Box::new(bitflip_case) }, threads: 16 },
            Phase { name: "boundaries", kind: PhaseKind::Enum { n: (95 * 4 * 2 * 4, 95 * 4 * 2 * 4), exhaustive: (true, true), f: Box::new(boundary_case) }, threads: 16 },
            Phase { name: "random_walks", kind: PhaseKind::Gen { cases: (30000, 400000), tape_len: 24000, f: Box::new(walk_case) }, threads: 16 },
            Phase { name: "cli_walks", kind: PhaseKind::Gen { cases: (3000, 20000), tape_len: 3000, f: Box::new(cli_case) }, threads: 16 },
        ],
    }
}
