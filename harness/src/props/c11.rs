//! C11 - word-level sanity predicates are exact for all 80-bit values

use crate::engine::*;
use crate::inproc::{self, Mode};
use crate::model::*;
use crate::tape::{fnv64, Tape};
use fastpasta::analyze::validators::its::cdp_running::CdpRunningValidator;
use fastpasta::analyze::validators::its::data_words::{ib::IbDataWordValidator, ob::ObDataWordValidator, DataWordSanityChecker};
use fastpasta::analyze::validators::its::status_word::StatusWordSanityChecker;
use fastpasta::config::test_util::MockConfig;
use fastpasta::stats::StatType;
use fastpasta::words::its::status_words::{ddw::Ddw0, ihw::Ihw, tdh::Tdh, tdt::Tdt, StatusWord};
use alice_protocol_reader::prelude::RdhCru;
use serde_json::json;

#[derive(Clone, Copy, Debug, PartialEq, Eq)]
pub enum SW {
    Ihw,
    Tdh,
    Tdt,
    Ddw0,
}

pub const ALL_SW: [SW; 4] = [SW::Ihw, SW::Tdh, SW::Tdt, SW::Ddw0];

impl SW {
    pub fn id(&self) -> u8 {
        match self {
            SW::Ihw => ID_IHW,
            SW::Tdh => ID_TDH,
            SW::Tdt => ID_TDT,
            SW::Ddw0 => ID_DDW0,
        }
    }
    pub fn code(&self) -> &'static str {
        match self {
            SW::Ihw => "30",
            SW::Tdh => "40",
            SW::Tdt => "50",
            SW::Ddw0 => "60",
        }
    }
    /// a value that passes the sanity check
    pub fn valid(&self) -> Word {
        match self {
            SW::Ihw => ihw(0x0ABC_DEF1),
            SW::Tdh => tdh(&TdhF { trigger_type: 0x813, internal: true, no_data: false, continuation: false, bc: 0x123, orbit: 0xDEADBEEF }),
            SW::Tdt => tdt(0x00AA_BBCC_DDEE_FF11, 5, true, true, true),
            SW::Ddw0 => ddw0(0x00AA_BBCC_DDEE_FF11, true, true, 0),
        }
    }
    pub fn ref_fails(&self, w: &[u8]) -> bool {
        match self {
            SW::Ihw => ref_ihw_fails(w),
            SW::Tdh => ref_tdh_fails(w),
            SW::Tdt => ref_tdt_fails(w),
            SW::Ddw0 => ref_ddw0_fails(w),
        }
    }
    pub fn impl_fails(&self, w: &[u8]) -> bool {
        let mut s: &[u8] = w;
        match self {
            SW::Ihw => StatusWordSanityChecker::check_ihw(&Ihw::load(&mut s).unwrap()).is_err(),
            SW::Tdh => StatusWordSanityChecker::check_tdh(&Tdh::load(&mut s).unwrap()).is_err(),
            SW::Tdt => StatusWordSanityChecker::check_tdt(&Tdt::load(&mut s).unwrap()).is_err(),
            SW::Ddw0 => StatusWordSanityChecker::check_ddw0(&Ddw0::load(&mut s).unwrap()).is_err(),
        }
    }
}

fn judge(sw: SW, w: &Word, how: &str) -> Result<bool, Fail> {
    let want = sw.ref_fails(w);
    let got = sw.impl_fails(w);
    if want != got {
        return Err(Fail::new(
            format!("C11:{sw:?}:predicate-{}", if want { "misses-violation" } else { "rejects-valid" }),
            format!("{sw:?} [{}]: sanity check says {}, documented rules say {}", word_hex(w), if got { "invalid" } else { "valid" }, if want { "invalid" } else { "valid" }),
            json!({"word_type": format!("{sw:?}"), "word": word_hex(w), "generated_by": how}),
        ));
    }
    Ok(want)
}

/// enumeration index space per type: 512 ids + 72 one-bit + 2556 two-bit + 8 specials
const PER_TYPE: u64 = 512 + 72 + 2556 + 8;

fn enum_word(sw: SW, k: u64) -> (Word, String) {
    let valid = sw.valid();
    if k < 256 {
        let mut w = [0u8; 10];
        w[9] = k as u8;
        return (w, format!("id {k:#04X} with all-zero rest"));
    }
    if k < 512 {
        let mut w = valid;
        w[9] = (k - 256) as u8;
        return (w, format!("id {:#04X} with valid rest", k - 256));
    }
    let k = k - 512;
    if k < 72 {
        let mut w = [0u8; 10];
        w[9] = sw.id();
        w[(k / 8) as usize] |= 1 << (k % 8);
        return (w, format!("single bit {k}"));
    }
    let k = k - 72;
    if k < 2556 {
        // k-th pair (i<j) of 72 bits
        let mut idx = k;
        let mut i = 0u64;
        loop {
            let row = 71 - i;
            if idx < row {
                break;
            }
            idx -= row;
            i += 1;
        }
        let j = i + 1 + idx;
        let mut w = [0u8; 10];
        w[9] = sw.id();
        w[(i / 8) as usize] |= 1 << (i % 8);
        w[(j / 8) as usize] |= 1 << (j % 8);
        return (w, format!("two bits {i},{j}"));
    }
    let k = k - 2556;
    let mut w = [0xFFu8; 10];
    w[9] = sw.id();
    match k {
        0 => (w, "all ones".into()),
        1 => {
            let mut v = valid;
            for b in v[..9].iter_mut() {
                *b = !*b;
            }
            (v, "valid value inverted".into())
        }
        2 => (valid, "valid value".into()),
        _ => {
            // valid value with one whole byte set to FF
            let mut v = valid;
            v[(k - 3) as usize + 3] = 0xFF;
            (v, format!("valid value with byte {} = FF", k))
        }
    }
}

fn enum_case(i: u64, w: &Worker) -> CaseResult {
    let sw = ALL_SW[(i / PER_TYPE) as usize % 4];
    let (word, how) = enum_word(sw, i % PER_TYPE);
    let invalid = judge(sw, &word, &how)?;
    let mut out = CaseOut::default();
    out.nontrivial = true;
    out.fingerprint = fnv64(&word) ^ (sw as u64);
    out.labels.push(format!("{sw:?}:{}", if invalid { "invalid" } else { "valid" }));
    if w.take_sample() {
        out.sample = Some(json!({"word_type": format!("{sw:?}"), "word": word_hex(&word), "how": how, "verdict_invalid": invalid}));
    }
    Ok(out)
}

fn random_case(t: &mut Tape, w: &Worker) -> CaseResult {
    let mut out = CaseOut::default();
    let mut fp = 0u64;
    for _ in 0..64 {
        let sw = *t.pick(&ALL_SW);
        let mut word = [0u8; 10];
        let b = t.bytes(10);
        word.copy_from_slice(&b);
        // half of the values carry the right id, a quarter start from the valid value
        match t.below(4) {
            0 | 1 => word[9] = sw.id(),
            2 => {
                word = sw.valid();
                for _ in 0..(1 + t.below(3)) {
                    let bit = t.below(80);
                    word[bit / 8] ^= 1 << (bit % 8);
                }
            }
            _ => {}
        }
        let invalid = judge(sw, &word, "random")?;
        out.labels.push(format!("{sw:?}:{}", if invalid { "invalid" } else { "valid" }));
        fp ^= fnv64(&word);
        if w.take_sample() {
            out.sample = Some(json!({"word_type": format!("{sw:?}"), "word": word_hex(&word), "verdict_invalid": invalid}));
        }
    }
    out.nontrivial = true;
    out.fingerprint = fp;
    Ok(out)
}

// ---- data words: all 256 ids x lane masks --------------------------------------------------------

fn data_predicates(id: u8, mask: u32) -> Result<bool, Fail> {
    let mut w = [0x11u8; 10];
    w[9] = id;
    let sanity_fails = DataWordSanityChecker::check_any(&w).is_err();
    if sanity_fails != !is_data_id(id) {
        return Err(Fail::new(
            "C11:data:id-range",
            format!("data word id {id:#04X}: sanity check says {}, documented ranges say {}", if sanity_fails { "invalid" } else { "valid" }, if is_data_id(id) { "valid" } else { "invalid" }),
            json!({"id": id}),
        ));
    }
    if is_data_id(id) {
        let lane = lane_of_id(id);
        let inactive = mask & (1 << lane) == 0;
        if id >> 5 == 1 {
            let r = IbDataWordValidator::check(&w, mask).is_err();
            if r != inactive {
                return Err(Fail::new("C11:data:ib-lane-active", format!("IB id {id:#04X} lane {lane} mask {mask:#X}: reported {r}, lane inactive {inactive}"), json!({"id": id, "mask": mask})));
            }
        } else {
            let r = ObDataWordValidator::check(&w, mask);
            let want = inactive || (id & 7) > 6;
            if r.is_err() != want {
                return Err(Fail::new("C11:data:ob-lane-active", format!("OB id {id:#04X} lane {lane} mask {mask:#X}: reported {}, expected {want}", r.is_err()), json!({"id": id, "mask": mask})));
            }
        }
    }
    Ok(ref_data_word_reported(id, mask, true))
}

/// end to end through the payload validator: IHW(mask) TDH <word with id> and see whether the word is reported
/// `pos` 0: the word directly follows the TDH (start of data, where ID 0xF8 is a calibration word);
/// `pos` 1: one data word lies in between (from there on 0xF8 is a data word with an invalid identifier)
fn e2e_data(id: u8, mask: u32, running: bool, pos: u8) -> Result<bool, Fail> {
    let cfg: &'static MockConfig = inproc::mock_cfg(if running { Mode::AllIts } else { Mode::SanityIts }, false);
    let (tx, rx) = flume::unbounded::<StatType>();
    let mut v: CdpRunningValidator<RdhCru, MockConfig> = CdpRunningValidator::new(cfg, tx);
    let r = Rdh { fee_id: fee_id(0, 0, 1), ..Rdh::default() };
    let rdh = inproc::load_rdh(&r.encode());
    v.set_current_rdh(&rdh, 0x1000);
    let t = TdhF { trigger_type: (r.trigger_type & 0xFFF) as u16, internal: true, no_data: false, continuation: false, bc: r.bc(), orbit: r.orbit };
    v.check(&ihw(mask));
    v.check(&tdh(&t));
    let mut w = [0x11u8; 10];
    if pos == 2 {
        // the governing IHW is the one of a continuation page: IHW(other mask) TDH TDT(not done) IHW(mask) TDH(continuation) <word>
        // (what was just checked is replayed: a fresh validator is simpler than undoing it)
        drop(v);
        while rx.try_recv().is_ok() {}
        let (tx2, rx2) = flume::unbounded::<StatType>();
        let mut v2: CdpRunningValidator<RdhCru, MockConfig> = CdpRunningValidator::new(cfg, tx2);
        v2.set_current_rdh(&rdh, 0x1000);
        v2.check(&ihw(!mask & 0x0FFF_FFFF));
        v2.check(&tdh(&t));
        v2.check(&tdt(0, 0, false, false, false));
        v2.check(&ihw(mask));
        v2.check(&tdh(&TdhF { continuation: true, ..t }));
        w[9] = id;
        v2.check(&w);
        drop(v2);
        let off = 0x1000 + 64 + 50;
        let mut reported = false;
        while let Ok(s) = rx2.try_recv() {
            if let StatType::Error(e) = s {
                if e.starts_with(&format!("{off:#X}:")) {
                    reported = true;
                }
            }
        }
        return Ok(reported);
    }
    if pos == 1 {
        // preceding data word: an active inner-barrel lane if there is one (whatever is reported for it is ignored)
        let lane = (0..9u8).find(|l| mask & (1 << l) != 0).unwrap_or(0);
        w[9] = 0x20 | lane;
        v.check(&w);
    }
    w[9] = id;
    v.check(&w);
    drop(v);
    let off = 0x1000 + 64 + 20 + 10 * pos as u64;
    let before = off - 10;
    let mut reported = false;
    while let Ok(s) = rx.try_recv() {
        if let StatType::Error(e) = s {
            if e.starts_with(&format!("{off:#X}:")) {
                reported = true;
            } else if pos == 1 && e.starts_with(&format!("{before:#X}:")) {
                // about the preceding word
            } else {
                return Err(Fail::new("C11:data:e2e-unexpected-error", format!("unexpected error elsewhere: {e}"), json!({"id": id, "mask": mask})));
            }
        }
    }
    Ok(reported)
}

/// error codes reported AT the data word in `IHW TDH [data] <word with id>` for an arbitrary IHW word
fn e2e_codes_at_word(id: u8, ihw_word: &Word, running: bool, pos: u8) -> std::collections::BTreeSet<String> {
    let cfg: &'static MockConfig = inproc::mock_cfg(if running { Mode::AllIts } else { Mode::SanityIts }, false);
    let (tx, rx) = flume::unbounded::<StatType>();
    let mut v: CdpRunningValidator<RdhCru, MockConfig> = CdpRunningValidator::new(cfg, tx);
    let r = Rdh { fee_id: fee_id(0, 0, 1), ..Rdh::default() };
    let rdh = inproc::load_rdh(&r.encode());
    v.set_current_rdh(&rdh, 0x1000);
    let t = TdhF { trigger_type: (r.trigger_type & 0xFFF) as u16, internal: true, no_data: false, continuation: false, bc: r.bc(), orbit: r.orbit };
    v.check(ihw_word);
    v.check(&tdh(&t));
    let mut w = [0x11u8; 10];
    if pos == 1 {
        w[9] = 0x20;
        v.check(&w);
    }
    w[9] = id;
    v.check(&w);
    drop(v);
    let off = 0x1000 + 64 + 20 + 10 * pos as u64;
    let mut codes = std::collections::BTreeSet::new();
    while let Ok(s) = rx.try_recv() {
        if let StatType::Error(e) = s {
            if let Some(m) = crate::cli::parse_err_msg(&e) {
                if m.offset == off {
                    for c in m.codes {
                        codes.insert(c);
                    }
                }
            }
        }
    }
    codes
}

/// metamorphic: the active-lanes field of an IHW is its bits 27:0; its reserved bits (reported at the IHW itself) have no
/// say in what is reported at the data words it governs
fn ihw_reserved_case(i: u64, w: &Worker) -> CaseResult {
    inproc::init_global_config();
    let id = (i % 256) as u8;
    let pat = (i / 256) % 7;
    let mask_sel = (i / (256 * 7)) % 3;
    let mask: u32 = [0u32, 0x0FFF_FFFF, 0x0555_5555][mask_sel as usize];
    let mut out = CaseOut::default();
    if id == ID_TDT || id == ID_CDW {
        return Ok(out);
    }
    let clean = ihw(mask);
    let mut dirty = clean;
    match pat {
        0..=3 => dirty[3] |= 0x10 << pat,
        4 => dirty[3] |= 0xF0,
        5 => dirty[4] = 0xFF,
        _ => dirty[8] = 0x80,
    }
    for pos in [0u8, 1] {
        for running in [true, false] {
            let a = e2e_codes_at_word(id, &clean, running, pos);
            let b = e2e_codes_at_word(id, &dirty, running, pos);
            if a != b {
                return Err(Fail::new(
                    "C11:data:ihw-reserved-bits-change-data-verdict",
                    format!("word with id {id:#04X} (active lanes {mask:#X}, running {running}, position {pos}): codes {a:?} under a clean IHW, {b:?} when only reserved bits of the IHW are set"),
                    json!({"id": id, "mask": mask, "ihw_clean": crate::tape::hex(&clean), "ihw_reserved_set": crate::tape::hex(&dirty), "running": running, "position": pos}),
                ));
            }
        }
    }
    out.nontrivial = true;
    out.fingerprint = i;
    out.labels.push("data:ihw_reserved_bits".into());
    if w.take_sample() {
        out.sample = Some(json!({"kind": "ihw reserved bits", "id": format!("{id:#04X}"), "ihw": crate::tape::hex(&dirty)}));
    }
    Ok(out)
}

fn data_enum_case(i: u64, w: &Worker) -> CaseResult {
    inproc::init_global_config();
    let id = (i % 256) as u8;
    let lane_sel = (i / 256) % 29; // 28 single-lane masks + empty mask
    let complement = (i / (256 * 29)) % 2 == 1;
    let mut mask: u32 = if lane_sel == 28 { 0 } else { 1 << lane_sel };
    if complement {
        mask = !mask & 0x0FFF_FFFF;
    }
    let reported_ref = data_predicates(id, mask)?;
    let mut out = CaseOut::default();
    // end to end (ids that are other legal words in the data state are not data words)
    for pos in [0u8, 1, 2] {
        if id == ID_TDT || (id == ID_CDW && pos != 1) {
            continue;
        }
        for running in [true, false] {
            let got = e2e_data(id, mask, running, pos)?;
            let want = ref_data_word_reported(id, mask, running);
            if got != want {
                return Err(Fail::new(
                    format!("C11:data:e2e-{}", if want { "not-reported" } else { "reported-wrongly" }),
                    format!("word with id {id:#04X} at data position {pos} (IHW active lanes {mask:#X}, running checks {running}): reported={got}, documented rule says {want}"),
                    json!({"id": id, "mask": mask, "running": running, "position": pos}),
                ));
            }
        }
    }
    out.nontrivial = true;
    out.fingerprint = i;
    out.labels.push(format!("data:{}", if reported_ref { "reported" } else { "accepted" }));
    if w.take_sample() {
        out.sample = Some(json!({"id": format!("{id:#04X}"), "active_lanes": format!("{mask:#X}"), "reported": reported_ref}));
    }
    Ok(out)
}

fn data_random_case(t: &mut Tape, _w: &Worker) -> CaseResult {
    inproc::init_global_config();
    let mut out = CaseOut::default();
    let mut fp = 0;
    for _ in 0..16 {
        let id = if t.chance(1, 2) { *t.pick(&OL_IDS) } else { t.u8() };
        let mask = t.u32() & 0x0FFF_FFFF;
        let r = data_predicates(id, mask)?;
        let pos = t.below(3) as u8;
        if id != ID_TDT && !(id == ID_CDW && pos != 1) {
            let got = e2e_data(id, mask, true, pos)?;
            if got != r {
                return Err(Fail::new(
                    format!("C11:data:e2e-{}", if r { "not-reported" } else { "reported-wrongly" }),
                    format!("word with id {id:#04X} (IHW active lanes {mask:#X}): reported={got}, documented rule says {r}"),
                    json!({"id": id, "mask": mask}),
                ));
            }
        }
        out.labels.push(format!("data:{}", if r { "reported" } else { "accepted" }));
        fp ^= fnv64(&[id]) ^ mask as u64;
    }
    out.nontrivial = true;
    out.fingerprint = fp;
    Ok(out)
}

/// status words end to end: put the payload validator into the state where the type is expected
fn e2e_status_case(t: &mut Tape, w: &Worker) -> CaseResult {
    inproc::init_global_config();
    let sw = *t.pick(&ALL_SW);
    let mut word = sw.valid();
    match t.below(3) {
        0 => {}
        1 => {
            let bit = t.below(72);
            word[bit / 8] ^= 1 << (bit % 8);
        }
        _ => {
            let b = t.bytes(9);
            word[..9].copy_from_slice(&b);
        }
    }
    let cfg: &'static MockConfig = inproc::mock_cfg(Mode::SanityIts, false);
    let (tx, rx) = flume::unbounded::<StatType>();
    let mut v: CdpRunningValidator<RdhCru, MockConfig> = CdpRunningValidator::new(cfg, tx);
    let r = Rdh { fee_id: fee_id(0, 0, 1), ..Rdh::default() };
    v.set_current_rdh(&inproc::load_rdh(&r.encode()), 0);
    let good_tdh = tdh(&TdhF { trigger_type: 1, internal: true, no_data: false, continuation: false, bc: 0, orbit: 0 });
    let nodata_tdh = tdh(&TdhF { trigger_type: 1, internal: true, no_data: true, continuation: false, bc: 0, orbit: 0 });
    // prefix that leads to the state expecting `sw`
    let prefix: Vec<Word> = match sw {
        SW::Ihw => vec![],
        SW::Tdh => vec![ihw(1)],
        SW::Tdt => vec![ihw(1), good_tdh],
        SW::Ddw0 => vec![ihw(1), nodata_tdh],
    };
    for p in &prefix {
        v.check(p);
    }
    v.check(&word);
    // the same word a second time on the same link: legal words lead back to the state that expects the type
    // (a verdict must not depend on whether an identical word was seen before)
    let cont_tdh = tdh(&TdhF { trigger_type: 1, internal: true, no_data: false, continuation: true, bc: 0, orbit: 0 });
    let done_tdt = tdt(0, 0, true, false, false);
    let good_ddw0 = ddw0(0, false, false, 0);
    let bridge: Vec<Word> = match sw {
        SW::Ihw => vec![nodata_tdh, good_ddw0],
        SW::Tdh => {
            if tdh_fields(&word).no_data {
                vec![good_ddw0, ihw(1)]
            } else {
                vec![done_tdt, good_ddw0, ihw(1)]
            }
        }
        SW::Tdt => {
            if word[8] & 1 == 1 {
                vec![good_ddw0, ihw(1), good_tdh]
            } else {
                vec![ihw(1), cont_tdh]
            }
        }
        SW::Ddw0 => vec![ihw(1), nodata_tdh],
    };
    for b in &bridge {
        v.check(b);
    }
    v.check(&word);
    drop(v);
    let off = 64 + 10 * prefix.len() as u64;
    let off2 = off + 10 * (1 + bridge.len() as u64);
    let mut got_code = false;
    let mut got_again = false;
    while let Ok(s) = rx.try_recv() {
        if let StatType::Error(e) = s {
            if e.starts_with(&format!("{off:#X}: [E{}]", sw.code())) {
                got_code = true;
            }
            if e.starts_with(&format!("{off2:#X}: [E{}]", sw.code())) {
                got_again = true;
            }
        }
    }
    let want = sw.ref_fails(&word);
    if got_code == want && got_again != want {
        return Err(Fail::new(
            format!("C11:{sw:?}:e2e-second-occurrence-{}", if want { "not-reported" } else { "reported-wrongly" }),
            format!("{sw:?} [{}] a second time on the same link (after {} legal words): E{} reported = {got_again}, documented rules say {want}", word_hex(&word), bridge.len(), sw.code()),
            json!({"word_type": format!("{sw:?}"), "word": word_hex(&word), "first_offset": off, "second_offset": off2}),
        ));
    }
    if got_code != want {
        return Err(Fail::new(
            format!("C11:{sw:?}:e2e-{}", if want { "not-reported" } else { "reported-wrongly" }),
            format!("{sw:?} [{}] in the state that expects it: E{} reported = {got_code}, documented rules say {want}", word_hex(&word), sw.code()),
            json!({"word_type": format!("{sw:?}"), "word": word_hex(&word)}),
        ));
    }
    let mut out = CaseOut::default();
    out.nontrivial = true;
    out.fingerprint = fnv64(&word) ^ (sw as u64) << 60;
    out.labels.push(format!("e2e:{sw:?}:{}", if want { "invalid" } else { "valid" }));
    if w.take_sample() {
        out.sample = Some(json!({"kind": "e2e", "word_type": format!("{sw:?}"), "word": word_hex(&word), "reported": got_code}));
    }
    Ok(out)
}

pub fn build() -> Property {
    Property {
        id: "C11",
        rule: "Per status word type (IHW, TDH, TDT, DDW0), enumerated completely: all 256 identifier bytes x {all-zero rest, valid rest}; with the right identifier every 1-bit (72) and 2-bit (2556) pattern over the other 72 bits, \
               all-ones, inverted valid value, whole bytes FF. Data words: all 256 ids x 28 single-lane masks, empty mask and their complements, through the three predicates and end to end through the payload validator at three positions (directly after the TDH, where id 0xF8 is a calibration word; behind a data word, where it is an invalid data word id; on a continuation page whose IHW carries another active-lane mask than the first IHW) \
               (running and sanity-only); all 256 ids under an IHW whose reserved bits (31:28 one by one and together, byte 4, bit 71) are set must be judged as under the same IHW with those bits clear (same codes at the word). Plus proptest-random 80-bit values (64 per case) and end-to-end status words in the state that expects them. Oracle: independent reference predicates written from the documented bit layout. \
               Every enumerated case is distinct and non-trivial (both verdicts occur for every type: see label histogram).",
        assumptions: vec![
            "DDW0: index != 0 is the broken rule (as the property states; doc/checks_list.md says `index >= 1`, contradicted by its own test data)".into(),
            "exhaustive only over the named finite sub-spaces, not over 2^80".into(),
        ],
        phases: vec![
            Phase { name: "status_enumerated", kind: PhaseKind::Enum { n: (4 * PER_TYPE, 4 * PER_TYPE), exhaustive: (true, true), f: Box::new(enum_case) }, threads: 16 },
            Phase { name: "data_enumerated", kind: PhaseKind::Enum { n: (256 * 29 * 2, 256 * 29 * 2), exhaustive: (true, true), f: Box::new(data_enum_case) }, threads: 16 },
            Phase { name: "data_ihw_reserved", kind: PhaseKind::Enum { n: (256 * 7 * 3, 256 * 7 * 3), exhaustive: (true, true), f: Box::new(ihw_reserved_case) }, threads: 16 },
            Phase { name: "status_random", kind: PhaseKind::Gen { cases: (40000, 800000), tape_len: 64 * 9, f: Box::new(random_case) }, threads: 16 },
            Phase { name: "data_random", kind: PhaseKind::Gen { cases: (20000, 300000), tape_len: 80, f: Box::new(data_random_case) }, threads: 16 },
            Phase { name: "status_e2e", kind: PhaseKind::Gen { cases: (200000, 2000000), tape_len: 16, f: Box::new(e2e_status_case) }, threads: 16 },
        ],
    }
}
