mod alpide;
mod cli;
mod engine;
mod fsm_model;
mod gen;
mod inproc;
mod model;
mod props;
mod tape;
mod truth;

use engine::{RunCfg, Tier};
use std::path::PathBuf;

fn usage() -> ! {
    eprintln!("usage: fpv <Cxx> quick|thorough [--phase <name>]\n       fpv <Cxx> --replay <file>\n       fpv --list");
    std::process::exit(2)
}

fn main() {
    let args: Vec<String> = std::env::args().skip(1).collect();
    if args.is_empty() {
        usage();
    }
    if args[0] == "--list" {
        for id in props::ALL_IDS {
            println!("{id}");
        }
        return;
    }
    let id = args[0].clone();
    let seed: u64 = std::env::var("VERIF_SEED")
        .ok()
        .and_then(|s| s.trim().parse::<i64>().ok().map(|x| x as u64).or_else(|| s.trim().parse::<u64>().ok()))
        .unwrap_or(20260101);
    let cli = PathBuf::from(std::env::var("FPV_CLI").unwrap_or_else(|_| "/verif/target/cli/release/fastpasta".into()));
    if !cli.exists() {
        eprintln!("CLI binary {} missing (run ./check --setup)", cli.display());
        std::process::exit(2);
    }
    let scratch_root = engine::verif_root().join(format!("target/scratch/{}_{}", id, std::process::id()));
    std::fs::create_dir_all(&scratch_root).ok();
    inproc::silence_panics();
    let mut tier = match std::env::var("VERIF_TIER").ok().as_deref() {
        Some("thorough") => Tier::Thorough,
        _ => Tier::Quick,
    };
    let mut replay: Option<PathBuf> = None;
    let mut only_phase = None;
    let mut i = 1;
    while i < args.len() {
        match args[i].as_str() {
            "quick" => tier = Tier::Quick,
            "thorough" => tier = Tier::Thorough,
            "--replay" => {
                i += 1;
                replay = Some(PathBuf::from(args.get(i).cloned().unwrap_or_else(|| usage())));
            }
            "--phase" => {
                i += 1;
                only_phase = Some(args.get(i).cloned().unwrap_or_else(|| usage()));
            }
            _ => usage(),
        }
        i += 1;
    }
    let Some(prop) = props::build(&id) else {
        eprintln!("unknown property {id}");
        std::process::exit(2);
    };
    let cfg = RunCfg {
        tier,
        seed,
        cli,
        scratch_root,
        only_phase,
    };
    let code = match replay {
        Some(f) => engine::replay_property(&prop, &cfg, &f),
        None => engine::run_property(&prop, &cfg, &props::fuzz_specs(&id)),
    };
    std::process::exit(code);
}
