//! Choice tape: every random decision of every generator is drawn from a `Vec<u16>` produced by
//! proptest.  Shrinking the vector (shorter, smaller numbers) shrinks the generated structure;
//! all decoders map `0` to their simplest alternative and map indices monotonically.

pub struct Tape<'a> {
    d: &'a [u16],
    p: usize,
}

impl<'a> Tape<'a> {
    pub fn new(d: &'a [u16]) -> Self {
        Self { d, p: 0 }
    }
    pub fn used(&self) -> usize {
        self.p
    }
    /// true when more values were requested than the tape holds (the rest reads as 0 = simplest)
    pub fn exhausted(&self) -> bool {
        self.p > self.d.len()
    }
    /// sub-tape over the next `n` entries; this tape advances by `n`.  Gives every component of a
    /// generated structure its own region, so decisions made late do not starve and shrinking is local.
    pub fn fork(&mut self, n: usize) -> Tape<'a> {
        let start = self.p.min(self.d.len());
        let end = (self.p + n).min(self.d.len());
        self.p += n;
        Tape { d: &self.d[start..end], p: 0 }
    }
    #[inline]
    pub fn next(&mut self) -> u16 {
        let v = self.d.get(self.p).copied().unwrap_or(0);
        self.p += 1;
        v
    }
    /// uniform-ish index in 0..n (monotone in the drawn value); n == 0 gives 0
    #[inline]
    pub fn below(&mut self, n: usize) -> usize {
        if n <= 1 {
            // still consume, keeps alignment stable while shrinking
            let _ = self.next();
            return 0;
        }
        if n <= 65536 {
            ((self.next() as u64 * n as u64) >> 16) as usize
        } else {
            let v = self.u32() as u64;
            ((v * n as u64) >> 32) as usize
        }
    }
    /// inclusive range
    #[inline]
    pub fn range(&mut self, lo: usize, hi: usize) -> usize {
        debug_assert!(hi >= lo);
        lo + self.below(hi - lo + 1)
    }
    /// true with probability num/den; a drawn 0 is always false
    #[inline]
    pub fn chance(&mut self, num: u32, den: u32) -> bool {
        let v = self.next() as u64;
        // v in 0..65536 ; true for the top num/den fraction
        v * (den as u64) >= (65536u64 * (den - num) as u64) && num > 0
    }
    pub fn weighted(&mut self, w: &[u32]) -> usize {
        let tot: u64 = w.iter().map(|x| *x as u64).sum();
        if tot == 0 {
            let _ = self.next();
            return 0;
        }
        let x = ((self.next() as u64) * tot) >> 16;
        let mut acc = 0u64;
        for (i, wi) in w.iter().enumerate() {
            acc += *wi as u64;
            if x < acc {
                return i;
            }
        }
        w.len() - 1
    }
    pub fn pick<'b, T>(&mut self, xs: &'b [T]) -> &'b T {
        let i = self.below(xs.len());
        &xs[i]
    }
    #[inline]
    pub fn u8(&mut self) -> u8 {
        (self.next() >> 8) as u8
    }
    #[inline]
    pub fn u16(&mut self) -> u16 {
        self.next()
    }
    #[inline]
    pub fn u32(&mut self) -> u32 {
        ((self.next() as u32) << 16) | self.next() as u32
    }
    #[inline]
    pub fn u64(&mut self) -> u64 {
        ((self.u32() as u64) << 32) | self.u32() as u64
    }
    /// n pseudo-random bytes expanded from two tape values (content that does not steer the generator)
    pub fn bytes_cheap(&mut self, n: usize) -> Vec<u8> {
        let mut x = ((self.u32() as u64) << 1) | 1;
        let mut v = Vec::with_capacity(n);
        while v.len() < n {
            x ^= x << 13;
            x ^= x >> 7;
            x ^= x << 17;
            v.extend_from_slice(&x.to_le_bytes()[..(n - v.len()).min(8)]);
        }
        v
    }
    pub fn bytes(&mut self, n: usize) -> Vec<u8> {
        let mut v = Vec::with_capacity(n);
        while v.len() < n {
            let x = self.next();
            v.push((x >> 8) as u8);
            if v.len() < n {
                v.push(x as u8);
            }
        }
        v
    }
}

/// splitmix64 - used only to derive sub-seeds from VERIF_SEED (never inside a property)
pub fn mix(mut x: u64) -> u64 {
    x = x.wrapping_add(0x9E37_79B9_7F4A_7C15);
    let mut z = x;
    z = (z ^ (z >> 30)).wrapping_mul(0xBF58_476D_1CE4_E5B9);
    z = (z ^ (z >> 27)).wrapping_mul(0x94D0_49BB_1331_11EB);
    z ^ (z >> 31)
}

pub fn fnv64(data: &[u8]) -> u64 {
    let mut h: u64 = 0xcbf2_9ce4_8422_2325;
    for b in data {
        h ^= *b as u64;
        h = h.wrapping_mul(0x0000_0100_0000_01B3);
    }
    h
}

pub fn fnv_str(s: &str) -> u64 {
    fnv64(s.as_bytes())
}

pub fn hex(data: &[u8]) -> String {
    let mut s = String::with_capacity(data.len() * 2);
    for b in data {
        s.push_str(&format!("{b:02x}"));
    }
    s
}

pub fn unhex(s: &str) -> Vec<u8> {
    let b = s.as_bytes();
    (0..b.len() / 2)
        .map(|i| u8::from_str_radix(std::str::from_utf8(&b[2 * i..2 * i + 2]).unwrap(), 16).unwrap())
        .collect()
}
